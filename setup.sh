#!/bin/bash
# Build the verification framework offline from files on disk.
set -e
cd "$(dirname "$0")/engine"
export GOFLAGS=-mod=mod GOPROXY=off GOSUMDB=off GOTOOLCHAIN=local
mkdir -p ../bin
go build -o ../bin/vcheck ./cmd/vcheck
echo "vcheck built"
