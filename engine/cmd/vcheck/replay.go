package main

import (
	"bufio"
	"bytes"
	"context"
	"encoding/json"
	"fmt"
	"os"
	"os/exec"
	"path/filepath"
	"regexp"
	"strings"
	"sync"
	"time"

	"gosymx/interp"
)

type replayJob struct {
	path    string
	viol    *interp.Violation
	params  map[string]int
	outcome string
	detail  string
	wantObs []string
	gotObs  []string
}

func (j *replayJob) confirms() bool {
	switch j.viol.Kind {
	case "panic":
		if strings.HasPrefix(j.viol.Tag, "fatal error: stack overflow") && j.outcome == "hang" {
			// unbounded recursion that has not yet exhausted the native 1 GB
			// stack after 20 s: no result either way
			return true
		}
		return j.outcome == "panic"
	case "assert":
		if strings.HasPrefix(j.viol.Tag, "no-unsynchronised-write-to-package-level-state") {
			// a footprint finding is confirmed by the race detector
			return j.outcome == "race"
		}
		return j.outcome == "assert" && j.detail == j.viol.Tag
	case "hang":
		return j.outcome == "hang"
	}
	return false
}

type replayer struct {
	repo, hdir, dir, prop string
}

func goEnv() []string {
	return append(os.Environ(), "GOFLAGS=-mod=mod", "GOPROXY=off", "GOSUMDB=off", "GOTOOLCHAIN=local")
}

// overlayFile builds the -overlay json: harness files into the repo dir and
// a patched x/exp/rand/rng.go whose PCGSource.Uint64 consults a hook, so the
// solver's draw values can be fed to the real dice code.
func (r *replayer) overlayFile() (string, error) {
	repl := map[string]string{}
	files, _ := filepath.Glob(filepath.Join(r.hdir, "*.go"))
	for _, f := range files {
		repl[filepath.Join(r.repo, filepath.Base(f))] = f
	}
	rng, patched, err := patchedRng(r.repo)
	if err != nil {
		return "", err
	}
	pf := filepath.Join(r.dir, "rng_patched.go")
	if err := os.WriteFile(pf, patched, 0o644); err != nil {
		return "", err
	}
	repl[rng] = pf
	if r.prop == "C12" {
		// schedule replay: ValueMap's synchronisation operations go through
		// the native scheduler's wrappers (zz_verif_sched.go)
		vmf := filepath.Join(r.repo, "valuemap.go")
		if src, err := os.ReadFile(vmf); err == nil {
			vp := filepath.Join(r.dir, "valuemap_patched.go")
			if err := os.WriteFile(vp, patchSyncOps(src), 0o644); err != nil {
				return "", err
			}
			repl[vmf] = vp
		}
	}
	data, _ := json.Marshal(map[string]interface{}{"Replace": repl})
	of := filepath.Join(r.dir, "overlay.json")
	return of, os.WriteFile(of, data, 0o644)
}

func (r *replayer) run(jobs []*replayJob) error {
	if len(jobs) == 0 {
		return nil
	}
	of, err := r.overlayFile()
	if err != nil {
		return err
	}
	var list strings.Builder
	byPath := map[string]*replayJob{}
	for _, j := range jobs {
		rf := map[string]interface{}{
			"harness": j.viol.Harness, "kind": j.viol.Kind, "tag": j.viol.Tag, "msg": j.viol.Msg,
			"where": j.viol.Where, "stack": j.viol.Stack, "syms": j.viol.Syms, "model": j.viol.Model,
			"decisions": j.viol.Decisions, "params": j.params, "notes": j.viol.Notes, "property": r.prop,
		}
		data, _ := json.MarshalIndent(rf, "", " ")
		if err := os.WriteFile(j.path, data, 0o644); err != nil {
			return err
		}
		list.WriteString(j.path + "\n")
		byPath[j.path] = j
	}
	_ = list
	// one test binary, one process per replay: package-level state of the
	// library (and of a changed library) starts afresh for every replay, as it
	// does for every path in the engine.  Footprint findings (C11) are
	// confirmed by a second binary built with the race detector; everything
	// else runs without it (under -race sync.Pool drops items at random).
	build := func(name string, race bool) (string, error) {
		bin := filepath.Join(r.dir, name)
		bctx, bcancel := context.WithTimeout(context.Background(), 10*time.Minute)
		defer bcancel()
		bargs := []string{"test", "-c", "-o", bin, "-tags", "verif", "-vet=off", "-overlay", of}
		if race {
			bargs = append(bargs, "-race")
		}
		bargs = append(bargs, ".")
		bcmd := exec.CommandContext(bctx, "go", bargs...)
		bcmd.Dir = r.repo
		bcmd.Env = goEnv()
		if out, err := bcmd.CombinedOutput(); err != nil {
			tail := string(out)
			if len(tail) > 3000 {
				tail = tail[len(tail)-3000:]
			}
			return "", fmt.Errorf("building the replay binary failed (%v):\n%s", err, tail)
		}
		return bin, nil
	}
	needsRace := func(j *replayJob) bool {
		return r.prop == "C11" && strings.HasPrefix(j.viol.Tag, "no-unsynchronised-write-to-package-level-state")
	}
	var bin, raceBin string
	for _, j := range jobs {
		if needsRace(j) && raceBin == "" {
			b, err := build("replay_race.test", true)
			if err != nil {
				return err
			}
			raceBin = b
			defer os.Remove(b)
		}
		if !needsRace(j) && bin == "" {
			b, err := build("replay.test", false)
			if err != nil {
				return err
			}
			bin = b
			defer os.Remove(b)
		}
	}
	sem := make(chan struct{}, 8)
	var wg sync.WaitGroup
	for i, j := range jobs {
		wg.Add(1)
		sem <- struct{}{}
		go func(i int, j *replayJob) {
			defer func() { <-sem; wg.Done() }()
			lf := filepath.Join(r.dir, fmt.Sprintf("list_%d.txt", i))
			os.WriteFile(lf, []byte(j.path+"\n"), 0o644)
			defer os.Remove(lf)
			ctx, cancel := context.WithTimeout(context.Background(), 5*time.Minute)
			defer cancel()
			exe := bin
			if needsRace(j) {
				exe = raceBin
			}
			cmd := exec.CommandContext(ctx, exe, "-test.run", "^TestVerifReplay$", "-test.v", "-test.timeout", "4m")
			cmd.Dir = r.repo
			cmd.Env = append(goEnv(), "VERIF_REPLAY_LIST="+lf)
			out, _ := cmd.CombinedOutput()
			sc := bufio.NewScanner(bytes.NewReader(out))
			sc.Buffer(make([]byte, 1<<20), 1<<24)
			raced := false
			for sc.Scan() {
				ln := sc.Text()
				if strings.Contains(ln, "WARNING: DATA RACE") {
					raced = true
					continue
				}
				if !strings.HasPrefix(ln, "VREPLAY ") {
					continue
				}
				f := strings.SplitN(ln, " ", 4)
				if len(f) < 3 || f[1] != j.path {
					continue
				}
				j.outcome = f[2]
				if len(f) == 4 {
					j.detail = f[3]
					if k := strings.Index(j.detail, " ||OBS|| "); k >= 0 {
						json.Unmarshal([]byte(j.detail[k+9:]), &j.gotObs)
						j.detail = j.detail[:k]
					}
				}
			}
			if raced && j.outcome == "ok" {
				j.outcome = "race"
				j.detail = "data race reported by the race detector"
			}
			if j.outcome == "" {
				// a fatal error (stack overflow, OOM) kills the test binary
				if strings.Contains(string(out), "fatal error:") || strings.Contains(string(out), "goroutine stack exceeds") {
					j.outcome = "panic"
					j.detail = "fatal error in test binary: " + firstFatal(string(out))
				} else if ctx.Err() != nil {
					j.outcome = "hang"
					j.detail = "replay process killed after 5 minutes"
				} else {
					tail := string(out)
					if len(tail) > 1500 {
						tail = tail[len(tail)-1500:]
					}
					j.outcome = "error"
					j.detail = "no result line: " + strings.ReplaceAll(tail, "\n", "\\n")
				}
			}
		}(i, j)
	}
	wg.Wait()
	return nil
}

func firstFatal(out string) string {
	i := strings.Index(out, "fatal error:")
	if i < 0 {
		return ""
	}
	s := out[i:]
	if j := strings.Index(s, "\n"); j > 0 {
		s = s[:j]
	}
	return s
}

var syncOpRewrites = []struct {
	re   *regexp.Regexp
	repl string
}{
	{regexp.MustCompile(`\b(\w+(?:\.\w+)*)\.Lock\(\)`), "vSyncLock(&$1)"},
	{regexp.MustCompile(`\b(\w+(?:\.\w+)*)\.Unlock\(\)`), "vSyncUnlock(&$1)"},
	{regexp.MustCompile(`\b(\w+(?:\.\w+)*)\.read\.Load\(\)`), "vSyncValueLoad(&$1.read)"},
	{regexp.MustCompile(`\b(\w+(?:\.\w+)*)\.read\.Store\(`), "vSyncValueStore(&$1.read, "},
	{regexp.MustCompile(`\batomic\.LoadPointer\(`), "vSyncLoadPointer("},
	{regexp.MustCompile(`\batomic\.StorePointer\(`), "vSyncStorePointer("},
	{regexp.MustCompile(`\batomic\.CompareAndSwapPointer\(`), "vSyncCASPointer("},
}

// patchSyncOps rewrites the synchronisation operations of valuemap.go into
// calls of the replay scheduler's wrappers (comments are left alone only as
// far as they do not contain such calls; the file is not reformatted).
func patchSyncOps(src []byte) []byte {
	lines := strings.Split(string(src), "\n")
	for i, ln := range lines {
		code := ln
		cmt := ""
		if k := strings.Index(ln, "//"); k >= 0 {
			code, cmt = ln[:k], ln[k:]
		}
		for _, rw := range syncOpRewrites {
			code = rw.re.ReplaceAllString(code, rw.repl)
		}
		lines[i] = code + cmt
	}
	out := strings.Join(lines, "\n")
	// "sync/atomic" may have become unused
	out = strings.Replace(out, "\t\"sync/atomic\"\n", "\t\"sync/atomic\"\n", 1)
	out += "\nvar _ = atomic.LoadPointer\n"
	return []byte(out)
}

// patchedRng returns the path of x/exp/rand/rng.go and a copy whose
// PCGSource.Uint64 consults VerifDrawHook first.
func patchedRng(repo string) (string, []byte, error) {
	cmd := exec.Command("go", "list", "-m", "-f", "{{.Dir}}", "golang.org/x/exp")
	cmd.Dir = repo
	cmd.Env = goEnv()
	out, err := cmd.Output()
	if err != nil {
		return "", nil, fmt.Errorf("go list x/exp: %v", err)
	}
	rng := filepath.Join(strings.TrimSpace(string(out)), "rand", "rng.go")
	src, err := os.ReadFile(rng)
	if err != nil {
		return "", nil, err
	}
	const sig = "func (pcg *PCGSource) Uint64() uint64 {\n"
	if !bytes.Contains(src, []byte(sig)) {
		return "", nil, fmt.Errorf("cannot patch %s", rng)
	}
	patched := bytes.Replace(src, []byte(sig), []byte(sig+"\tif VerifDrawHook != nil {\n\t\tif v, ok := VerifDrawHook(pcg); ok {\n\t\t\treturn v\n\t\t}\n\t}\n"), 1)
	patched = append(patched, []byte("\n// VerifDrawHook lets the replay harness supply generator outputs.\nvar VerifDrawHook func(*PCGSource) (uint64, bool)\n")...)
	return rng, patched, nil
}

// replayOne re-runs a stored counterexample against the natively compiled
// repository (go test with the harness overlay) and prints what happened.
func replayOne(path, repo, hdir string) int {
	if abs, err := filepath.Abs(path); err == nil {
		path = abs
	}
	data, err := os.ReadFile(path)
	if err != nil {
		fmt.Fprintln(os.Stderr, err)
		return 2
	}
	var rf struct {
		Harness  string `json:"harness"`
		Kind     string `json:"kind"`
		Tag      string `json:"tag"`
		Property string `json:"property"`
	}
	if err := json.Unmarshal(data, &rf); err != nil {
		fmt.Fprintln(os.Stderr, err)
		return 2
	}
	dir, err := os.MkdirTemp("", "vreplay")
	if err != nil {
		fmt.Fprintln(os.Stderr, err)
		return 2
	}
	defer os.RemoveAll(dir)
	r := &replayer{repo: repo, hdir: hdir, dir: dir, prop: rf.Property}
	of, err := r.overlayFile()
	if err != nil {
		fmt.Fprintln(os.Stderr, err)
		return 2
	}
	lf := filepath.Join(dir, "list.txt")
	os.WriteFile(lf, []byte(path+"\n"), 0o644)
	cmd := exec.Command("go", "test", "-tags", "verif", "-vet=off", "-count=1", "-run", "^TestVerifReplay$", "-v", "-overlay", of, ".")
	cmd.Dir = repo
	cmd.Env = append(goEnv(), "VERIF_REPLAY_LIST="+lf)
	out, _ := cmd.CombinedOutput()
	for _, ln := range strings.Split(string(out), "\n") {
		if strings.HasPrefix(ln, "VREPLAY ") {
			fmt.Printf("harness=%s expected=%s/%s\n%s\n", rf.Harness, rf.Kind, rf.Tag, ln)
			f := strings.SplitN(ln, " ", 4)
			if len(f) >= 3 && (f[2] == "panic" || f[2] == "assert" || f[2] == "hang") {
				return 1
			}
			return 0
		}
	}
	fmt.Print(string(out))
	return 2
}
