// vcheck: run the solver-based checks of one property.
//
//	vcheck -p C05 -tier quick
//
// Exit 0: property held on everything explored (KNOWN-FINDING lines allowed).
// Exit 1: "VIOLATION property=<id> replay=<path>" printed for a reproduced
// counterexample.  Exit 2: the machinery itself failed (never a verdict).
package main

import (
	"encoding/json"
	"flag"
	"fmt"
	"os"
	"path/filepath"
	"runtime"
	"runtime/debug"
	"runtime/pprof"
	"sort"
	"strconv"
	"strings"
	"time"

	"gosymx/interp"
)

type harnessSpec struct {
	Name   string
	Prop   string
	Tiers  map[string]bool
	Opts   map[string]string            // common options
	TierKV map[string]map[string]string // tier-specific options
	Bounds string
	File   string
}

func (h *harnessSpec) opt(tier, key, def string) string {
	if m := h.TierKV[tier]; m != nil {
		if v, ok := m[key]; ok {
			return v
		}
	}
	if v, ok := h.Opts[key]; ok {
		return v
	}
	return def
}

func (h *harnessSpec) optInt(tier, key string, def int) int {
	v := h.opt(tier, key, "")
	if v == "" {
		return def
	}
	n, err := strconv.Atoi(v)
	if err != nil {
		fatal("harness %s: option %s=%q: %v", h.Name, key, v, err)
	}
	return n
}

func fatal(format string, args ...interface{}) {
	fmt.Fprintf(os.Stderr, "vcheck: "+format+"\n", args...)
	os.Exit(2)
}

// parseDirectives extracts //vh: lines directly above func VH_* declarations.
func parseDirectives(file string, src []byte) []*harnessSpec {
	var out []*harnessSpec
	lines := strings.Split(string(src), "\n")
	for i, ln := range lines {
		if !strings.HasPrefix(ln, "//vh:") {
			continue
		}
		// find the func line
		name := ""
		for j := i + 1; j < len(lines) && j < i+4; j++ {
			if strings.HasPrefix(lines[j], "func VH_") {
				rest := strings.TrimPrefix(lines[j], "func ")
				name = rest[:strings.Index(rest, "(")]
				break
			}
		}
		if name == "" {
			fatal("%s:%d: //vh: directive without func VH_*", file, i+1)
		}
		h := &harnessSpec{Name: name, Tiers: map[string]bool{}, Opts: map[string]string{}, TierKV: map[string]map[string]string{}, File: file}
		for _, tok := range splitDirective(strings.TrimPrefix(ln, "//vh:")) {
			eq := strings.Index(tok, "=")
			if eq < 0 {
				fatal("%s:%d: bad token %q", file, i+1, tok)
			}
			k, v := tok[:eq], strings.Trim(tok[eq+1:], `"`)
			switch {
			case k == "prop":
				h.Prop = v
			case k == "tiers":
				for _, t := range strings.Split(v, ",") {
					h.Tiers[t] = true
				}
			case k == "bounds":
				h.Bounds = v
			case strings.Contains(k, ":"):
				tk := strings.SplitN(k, ":", 2)
				if h.TierKV[tk[0]] == nil {
					h.TierKV[tk[0]] = map[string]string{}
				}
				h.TierKV[tk[0]][tk[1]] = v
			default:
				h.Opts[k] = v
			}
		}
		out = append(out, h)
	}
	return out
}

func splitDirective(s string) []string {
	var out []string
	var cur strings.Builder
	inq := false
	for _, c := range s {
		switch {
		case c == '"':
			inq = !inq
			cur.WriteRune(c)
		case c == ' ' && !inq:
			if cur.Len() > 0 {
				out = append(out, cur.String())
				cur.Reset()
			}
		default:
			cur.WriteRune(c)
		}
	}
	if cur.Len() > 0 {
		out = append(out, cur.String())
	}
	return out
}

type harnessReport struct {
	Name          string              `json:"harness"`
	Bounds        string              `json:"bounds"`
	Params        map[string]int      `json:"params,omitempty"`
	Stats         interp.ExploreStats `json:"stats"`
	WallS         float64             `json:"wall_s"`
	Violations    int                 `json:"violations"`
	Spurious      int                 `json:"spurious"`
	ReachReplayed int                 `json:"reach_traces_replayed_natively"`
	Reduced       []string            `json:"reduced,omitempty"`
	Sample        *interp.PathSample  `json:"sample_path,omitempty"`
	samples       []interp.PathSample
}

// memLimit: a third of physical memory, at least 4 GiB.
func memLimit() int64 {
	lim := int64(4 << 30)
	if b, err := os.ReadFile("/proc/meminfo"); err == nil {
		for _, ln := range strings.Split(string(b), "\n") {
			if strings.HasPrefix(ln, "MemTotal:") {
				f := strings.Fields(ln)
				if len(f) >= 2 {
					if kb, err := strconv.ParseInt(f[1], 10, 64); err == nil && kb*1024/3 > lim {
						lim = kb * 1024 / 3
					}
				}
			}
		}
	}
	return lim
}

func main() {
	prop := flag.String("p", "", "property id (C01..C19)")
	tier := flag.String("tier", "quick", "quick|thorough")
	repo := flag.String("repo", "/repo", "repository under test")
	hdir := flag.String("harness", "/verif/harness", "harness directory")
	evdir := flag.String("evidence", "/verif/evidence", "evidence directory")
	rpdir := flag.String("replays", "/verif/replays", "replay directory")
	known := flag.String("known", "/verif/known_findings.json", "known findings file")
	only := flag.String("only", "", "run only this harness")
	workers := flag.Int("workers", 0, "worker count (0 = NumCPU)")
	trace := flag.Bool("trace", false, "trace paths")
	var cliParams paramFlags
	flag.Var(&cliParams, "P", "override harness parameter key=int (repeatable)")
	noreplay := flag.Bool("noreplay", false, "skip native replay (debugging only; never registers a verdict)")
	cpuprof := flag.String("cpuprofile", "", "write cpu profile")
	replayPath := flag.String("replay", "", "replay one counterexample file natively against /repo and print the outcome")
	flag.Parse()
	if *replayPath != "" {
		os.Exit(replayOne(*replayPath, *repo, *hdir))
	}
	if *cpuprof != "" {
		f, _ := os.Create(*cpuprof)
		pprof.StartCPUProfile(f)
		defer pprof.StopCPUProfile()
	}
	if *prop == "" {
		fatal("-p required")
	}
	debug.SetGCPercent(600)
	// GC percent 600 trades memory for speed; the soft limit makes the collector
	// work harder instead of letting a long thorough run be OOM-killed.
	debug.SetMemoryLimit(memLimit())
	if mp := os.Getenv("VCHECK_MEMPROFILE"); mp != "" {
		go func() {
			for {
				time.Sleep(60 * time.Second)
				f, _ := os.Create(mp)
				pprof.WriteHeapProfile(f)
				f.Close()
			}
		}()
	}
	if t := os.Getenv("VERIF_TIER"); t != "" && !isFlagSet("tier") {
		*tier = t
	}
	seed := 0
	if s := os.Getenv("VERIF_SEED"); s != "" {
		seed, _ = strconv.Atoi(s)
	}
	if *workers == 0 {
		*workers = runtime.NumCPU()
	}
	t0 := time.Now()

	// 1. harness files -> overlay
	files, _ := filepath.Glob(filepath.Join(*hdir, "*.go"))
	overlay := map[string][]byte{}
	var specs []*harnessSpec
	for _, f := range files {
		src, err := os.ReadFile(f)
		if err != nil {
			fatal("%v", err)
		}
		if strings.HasSuffix(f, "_test.go") {
			continue
		}
		overlay[filepath.Join(*repo, filepath.Base(f))] = src
		specs = append(specs, parseDirectives(f, src)...)
	}
	if rng, patched, err := patchedRng(*repo); err != nil {
		fatal("%v", err)
	} else {
		overlay[rng] = patched
	}
	var todo []*harnessSpec
	for _, h := range specs {
		if h.Prop == *prop && h.Tiers[*tier] && (*only == "" || *only == h.Name) {
			todo = append(todo, h)
		}
	}
	if len(todo) == 0 {
		fatal("no harness for property %s tier %s", *prop, *tier)
	}

	// 2. load + SSA from the current working tree
	tl := time.Now()
	prog, err := interp.LoadProgram(*repo, overlay, "verif")
	if err != nil {
		// A tree that does not build with the harnesses is not a verdict.
		fmt.Printf("REDUCED: harnesses do not build against this tree: %v\n", err)
		fatal("load failed")
	}
	loadS := time.Since(tl).Seconds()

	kf := loadKnown(*known)
	var reports []*harnessReport
	var allViol []*interp.Violation
	funcs := map[string]bool{}
	for _, h := range todo {
		cfg := &interp.ExploreConfig{
			MaxSteps:    int64(h.optInt(*tier, "maxsteps", 20_000_000)),
			MaxDepth:    h.optInt(*tier, "maxdepth", 20000),
			MaxPaths:    int64(h.optInt(*tier, "maxpaths", 0)),
			Unwind:      h.optInt(*tier, "unwind", 64),
			Workers:     *workers,
			Primary:     parseSolver(h.opt(*tier, "solver", "z3-new/bv"), h.optInt(*tier, "timeout_ms", 10000)),
			TimeBudget:  time.Duration(h.optInt(*tier, "budget_s", 600)) * time.Second,
			MaxViol:     h.optInt(*tier, "maxviol", 20),
			KeepSamples: h.optInt(*tier, "samples", 4),
			Trace:       *trace,
			Params:      map[string]int{},
			LenCap:      h.optInt(*tier, "lencap", 8),
		}
		for _, spec := range strings.Split(h.opt(*tier, "portfolio", "z3/bv,cvc5/bv,z3-new/int,cvc5/int"), ",") {
			p := strings.Split(spec, "/")
			if len(p) != 2 {
				continue
			}
			cfg.Portfolio = append(cfg.Portfolio, interp.SolverSpec{Name: p[0], IntEnc: p[1] == "int", TimeoutMs: h.optInt(*tier, "portfolio_timeout_ms", 30000)})
		}
		if ov := h.opt(*tier, "overrides", ""); ov != "" {
			cfg.Overrides = map[string]bool{}
			for _, name := range strings.Split(ov, ",") {
				cfg.Overrides[prog.Main.Pkg.Path()+"."+name] = true
			}
		}
		if sm := h.opt(*tier, "summaries", ""); sm != "" {
			cfg.Summaries = map[string]string{}
			for _, kv := range strings.Split(sm, ",") {
				p := strings.SplitN(kv, ":", 2)
				if len(p) == 2 {
					cfg.Summaries[p[0]] = p[1]
				}
			}
		}
		for k, v := range h.Opts {
			if strings.HasPrefix(k, "P.") {
				n, _ := strconv.Atoi(v)
				cfg.Params[strings.TrimPrefix(k, "P.")] = n
			}
		}
		for k, v := range h.TierKV[*tier] {
			if strings.HasPrefix(k, "P.") {
				n, _ := strconv.Atoi(v)
				cfg.Params[strings.TrimPrefix(k, "P.")] = n
			}
		}
		for k, v := range cliParams {
			cfg.Params[k] = v
		}
		cfg.UnwindOK = h.opt(*tier, "unwind_ok", "") == "1"
		cfg.HangIsViolation = h.opt(*tier, "hang_is_violation", "") == "1"
		cfg.DepthIsViolation = h.opt(*tier, "depth_is_violation", "") == "1"
		if sk := h.opt(*tier, "sigkeys", ""); sk != "" {
			cfg.SigLabels = strings.Split(sk, ",")
		}
		cfg.Known = func(v *interp.Violation) (string, bool) { return kf.match(*prop, v) }
		th := time.Now()
		ex, err := prog.Explore(h.Name, cfg)
		if err != nil {
			fatal("%v", err)
		}
		rep := &harnessReport{Name: h.Name, Bounds: h.Bounds, Params: cfg.Params, Stats: ex.Stats, WallS: time.Since(th).Seconds()}
		if len(ex.Samples) > 0 {
			rep.Sample = &ex.Samples[0]
		}
		for _, v := range ex.Violations {
			v.Notes = mergeNotes(v.Notes, map[string]string{"tier": *tier})
			allViol = append(allViol, v)
		}
		for _, f := range ex.SortedFuncs() {
			funcs[f] = true
		}
		rep.Violations = len(ex.Violations)
		for k, n := range ex.Stats.Aborts {
			switch k {
			case "assume", "assert-failed", "subsumed", "panic", "deadlock", "hang":
			case "unwind", "lencap":
				if !cfg.UnwindOK {
					rep.Reduced = append(rep.Reduced, fmt.Sprintf("%s x%d (%s)", k, n, ex.Stats.AbortSamples[k]))
				}
			default:
				rep.Reduced = append(rep.Reduced, fmt.Sprintf("%s x%d (%s)", k, n, ex.Stats.AbortSamples[k]))
			}
		}
		if ex.Stats.Inconclusive > 0 {
			rep.Reduced = append(rep.Reduced, fmt.Sprintf("inconclusive VCs x%d %v", ex.Stats.Inconclusive, ex.Stats.InconclusiveTags))
		}
		if ex.Stats.TimedOut {
			rep.Reduced = append(rep.Reduced, "exploration budget exhausted")
		}
		sort.Strings(rep.Reduced)
		reports = append(reports, rep)
		fmt.Printf("harness %-32s paths=%d aborts=%v forks=%d checks=%d VCs=%d/%d viol=%d known=%v %.1fs\n", h.Name, ex.Stats.Paths, ex.Stats.Aborts, ex.Stats.Forks, ex.Stats.SolverChecks, ex.Stats.Discharged, ex.Stats.Obligations, len(ex.Violations), ex.Stats.KnownHits, rep.WallS)
		for _, r := range rep.Reduced {
			fmt.Printf("REDUCED: %s: %s\n", h.Name, r)
		}
		// keep samples for native reach validation
		rep.sampleFor(ex, cfg)
	}

	// 3. native replay: counterexamples and one completed path per harness
	rp := &replayer{repo: *repo, hdir: *hdir, dir: filepath.Join(*rpdir, *prop), prop: *prop}
	confirmed, spurious, reachOK, reachBad := 0, 0, 0, 0
	approxUnconfirmed := 0
	var violLines []string
	if !*noreplay {
		os.RemoveAll(rp.dir)
		os.MkdirAll(rp.dir, 0o755)
		var jobs []*replayJob
		for i, v := range allViol {
			jobs = append(jobs, &replayJob{path: filepath.Join(rp.dir, fmt.Sprintf("cex_%d.json", i+1)), viol: v, params: paramsOf(reports, v.Harness)})
		}
		for _, r := range reports {
			for k := range r.samples {
				sm := &r.samples[k]
				v := &interp.Violation{Harness: r.Name, Kind: "reach", Syms: sm.Syms, Model: sm.Model, Decisions: sm.Decisions}
				jobs = append(jobs, &replayJob{path: filepath.Join(rp.dir, fmt.Sprintf("reach_%s_%d.json", r.Name, k)), viol: v, params: r.Params, wantObs: sm.Obs})
			}
		}
		if err := rp.run(jobs); err != nil {
			fmt.Printf("REPLAY-ERROR: %v\n", err)
			fatal("native replay failed")
		}
		if *prop == "C11" {
			// the race detector reports one location once per process: a
			// confirmed race confirms every finding on the same location set
			racedTags := map[string]bool{}
			for _, j := range jobs {
				if j.outcome == "race" {
					racedTags[j.viol.Tag] = true
				}
			}
			for _, j := range jobs {
				if j.outcome == "ok" && racedTags[j.viol.Tag] {
					j.outcome = "race"
					j.detail = "same shared location as a race confirmed in this replay run"
				}
			}
		}
		for _, j := range jobs {
			if j.viol.Kind == "reach" {
				if j.outcome == "race" && *prop == "C11" {
					// completed engine paths still contain the recorded (known)
					// shared writes; natively those show up as races
					j.outcome = "ok"
				}
				if j.outcome == "ok" && !sameObs(j.wantObs, j.gotObs) {
					j.outcome = "obs-mismatch"
					j.detail = fmt.Sprintf("engine=%q native=%q", j.wantObs, j.gotObs)
				}
				if j.outcome == "ok" {
					reachOK++
					for _, r := range reports {
						if r.Name == j.viol.Harness {
							r.ReachReplayed++
						}
					}
				} else if j.outcome == "assert" || j.outcome == "panic" {
					// the engine completed this path without a violation, but the
					// natively compiled code, fed the same model, fails the harness's
					// assertion (or panics): the real code is the authority - this is
					// a violation demonstrated by the replay (and an engine imprecision)
					nv := *j.viol
					nv.Kind, nv.Tag = j.outcome, j.detail
					if j.outcome == "panic" {
						nv.Tag = truncate(j.detail, 120)
					}
					if id, ok := kf.match(*prop, &nv); ok {
						fmt.Printf("NOTE: completed path of %s replays natively as the recorded finding %s\n", j.viol.Harness, id)
						reachOK++
					} else {
						confirmed++
						violLines = append(violLines, fmt.Sprintf("VIOLATION property=%s replay=%s", *prop, j.path))
						fmt.Printf("  counterexample %s: harness=%s found by native replay of a path the engine completed (engine imprecision): native %s %s\n    model=%s\n", filepath.Base(j.path), j.viol.Harness, j.outcome, truncate(j.detail, 300), modelString(j.viol))
						for _, r := range reports {
							if r.Name == j.viol.Harness {
								r.Reduced = append(r.Reduced, "engine completed a path that fails natively: "+truncate(j.detail, 100))
							}
						}
					}
				} else {
					reachBad++
					fmt.Printf("REPLAY-MISMATCH: completed path of %s replays natively as %s %s\n", j.viol.Harness, j.outcome, j.detail)
				}
				continue
			}
			if j.confirms() {
				confirmed++
				violLines = append(violLines, fmt.Sprintf("VIOLATION property=%s replay=%s", *prop, j.path))
				fmt.Printf("  counterexample %s: harness=%s kind=%s tag=%q where=%s\n    model=%s\n    native: %s %s\n", filepath.Base(j.path), j.viol.Harness, j.viol.Kind, j.viol.Tag, j.viol.Where, modelString(j.viol), j.outcome, truncate(j.detail, 300))
			} else if j.viol.Notes["approx"] != "" && j.viol.Kind == "assert" {
				approxUnconfirmed++
			} else {
				spurious++
				fmt.Printf("SPURIOUS: %s kind=%s tag=%q where=%s: native replay gave %s %s (engine/stub imprecision; harness inconclusive)\n", j.viol.Harness, j.viol.Kind, j.viol.Tag, j.viol.Where, j.outcome, truncate(j.detail, 200))
				for _, r := range reports {
					if r.Name == j.viol.Harness {
						r.Spurious++
						r.Reduced = append(r.Reduced, "spurious counterexample (not reproduced natively): "+j.viol.Tag)
					}
				}
			}
		}
	}

	// 4. evidence
	ev := buildEvidence(*prop, *tier, seed, reports, funcs, loadS, time.Since(t0).Seconds(), confirmed, spurious, reachOK, kf, prog)
	os.MkdirAll(*evdir, 0o755)
	data, _ := json.MarshalIndent(ev, "", " ")
	if err := os.WriteFile(filepath.Join(*evdir, *prop+".json"), data, 0o644); err != nil {
		fatal("%v", err)
	}

	for _, id := range kf.hitList() {
		fmt.Printf("KNOWN-FINDING: property=%s %s\n", *prop, id)
	}
	vacuous := false
	for _, r := range reports {
		if r.Stats.Paths == 0 {
			fmt.Printf("VACUOUS: harness %s completed no path\n", r.Name)
			vacuous = true
		}
	}
	for _, l := range violLines {
		fmt.Println(l)
	}
	if approxUnconfirmed > 0 {
		fmt.Printf("note: %d candidate counterexamples from over-approximated string comparisons did not reproduce natively (discarded)\n", approxUnconfirmed)
	}
	if n := interp.SolverStats.Errors; n > 0 {
		fmt.Printf("NOTE: %d solver queries were answered with an error line (counted as inconclusive, never as a verdict)\n", n)
	}
	fmt.Printf("vcheck %s %s: %d harnesses, %d confirmed violations, %d spurious, %d/%d completed-path replays ok, %.1fs\n", *prop, *tier, len(reports), confirmed, spurious, reachOK, reachOK+reachBad, time.Since(t0).Seconds())
	if len(violLines) > 0 {
		os.Exit(1)
	}
	if vacuous || reachBad > 0 {
		os.Exit(2)
	}
}

type paramFlags map[string]int

func (p *paramFlags) String() string { return fmt.Sprint(map[string]int(*p)) }
func (p *paramFlags) Set(s string) error {
	if *p == nil {
		*p = paramFlags{}
	}
	kv := strings.SplitN(s, "=", 2)
	if len(kv) != 2 {
		return fmt.Errorf("want key=int")
	}
	n, err := strconv.Atoi(kv[1])
	if err != nil {
		return err
	}
	(*p)[kv[0]] = n
	return nil
}

func parseSolver(s string, timeout int) interp.SolverSpec {
	p := strings.Split(s, "/")
	spec := interp.SolverSpec{Name: p[0], TimeoutMs: timeout}
	if len(p) > 1 && p[1] == "int" {
		spec.IntEnc = true
	}
	return spec
}

func isFlagSet(name string) bool {
	set := false
	flag.Visit(func(f *flag.Flag) {
		if f.Name == name {
			set = true
		}
	})
	return set
}

func mergeNotes(a, b map[string]string) map[string]string {
	if a == nil {
		a = map[string]string{}
	}
	for k, v := range b {
		a[k] = v
	}
	return a
}

func paramsOf(reports []*harnessReport, name string) map[string]int {
	for _, r := range reports {
		if r.Name == name {
			return r.Params
		}
	}
	return nil
}

func (r *harnessReport) sampleFor(ex *interp.Explorer, cfg *interp.ExploreConfig) {
	r.samples = ex.Samples
}

func sameObs(a, b []string) bool {
	if len(a) != len(b) {
		return false
	}
	for i := range a {
		if a[i] != b[i] {
			return false
		}
	}
	return true
}

func truncate(s string, n int) string {
	if len(s) > n {
		return s[:n] + "…"
	}
	return s
}

func modelString(v *interp.Violation) string {
	var parts []string
	for _, s := range v.Syms {
		val := v.Model[s.Name]
		parts = append(parts, fmt.Sprintf("%s=%d", s.Name, val))
		if len(parts) > 24 {
			parts = append(parts, "…")
			break
		}
	}
	return strings.Join(parts, " ")
}
