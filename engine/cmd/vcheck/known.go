package main

import (
	"encoding/json"
	"fmt"
	"os"
	"sort"
	"strings"
	"sync"

	"gosymx/interp"
)

// known_findings.json: genuine defects recorded rather than repaired.
type knownCond struct {
	Label string   `json:"label"`
	Op    string   `json:"op"` // eq | ne | in
	Vals  []uint64 `json:"values"`
}

type knownEntry struct {
	Property string      `json:"property"`
	ID       string      `json:"id"`
	Harness  string      `json:"harness"` // prefix match
	Kind     string      `json:"kind"`
	Tag      string      `json:"tag_prefix"`
	Where    string      `json:"where_contains"`
	Stack    string      `json:"stack_contains"`
	When     []knownCond `json:"when"`
	Classes  []string    `json:"classes"` // exact values of the harness's "class" note (any of)
	Status   string      `json:"status"`  // known | fixed: <commit>
	Witness  string      `json:"witness"`
	Note     string      `json:"note"`
}

type knownFile struct {
	Findings []knownEntry `json:"findings"`
	mu       sync.Mutex
	hits     map[string]bool
}

func loadKnown(path string) *knownFile {
	kf := &knownFile{hits: map[string]bool{}}
	data, err := os.ReadFile(path)
	if err != nil {
		return kf
	}
	if err := json.Unmarshal(data, kf); err != nil {
		fatal("known findings file: %v", err)
	}
	return kf
}

func (kf *knownFile) match(prop string, v *interp.Violation) (string, bool) {
	for _, e := range kf.Findings {
		if e.Property != prop || e.Status != "known" {
			continue
		}
		if e.Harness != "" && !strings.HasPrefix(v.Harness, e.Harness) {
			continue
		}
		if e.Kind != "" && e.Kind != v.Kind {
			continue
		}
		if e.Tag != "" && !strings.HasPrefix(v.Tag, e.Tag) {
			continue
		}
		if e.Where != "" && !strings.Contains(v.Where, e.Where) {
			continue
		}
		if e.Stack != "" && !strings.Contains(strings.Join(v.Stack, "\n"), e.Stack) {
			continue
		}
		if len(e.Classes) > 0 {
			found := false
			for _, c := range e.Classes {
				if c == v.Notes["class"] {
					found = true
				}
			}
			if !found {
				continue
			}
		}
		ok := true
		for _, c := range e.When {
			val, found := uint64(0), false
			for _, s := range v.Syms {
				if s.Label == c.Label {
					val, found = v.Model[s.Name], true
					break
				}
			}
			if !found {
				ok = false
				break
			}
			in := false
			for _, x := range c.Vals {
				if x == val {
					in = true
				}
			}
			switch c.Op {
			case "eq", "in":
				ok = ok && in
			case "ne":
				ok = ok && !in
			}
		}
		if !ok {
			continue
		}
		desc := e.ID + " " + e.Witness
		kf.mu.Lock()
		if os.Getenv("VCHECK_KNOWNCLASSES") != "" && !kf.hits["#"+e.ID+"#"+v.Notes["class"]] {
			kf.hits["#"+e.ID+"#"+v.Notes["class"]] = true
			fmt.Fprintf(os.Stderr, "KNOWNCLASS %s %q\n", e.ID, v.Notes["class"])
		}
		kf.hits[desc] = true
		kf.mu.Unlock()
		return e.ID, true
	}
	return "", false
}

func (kf *knownFile) hitList() []string {
	var out []string
	for k := range kf.hits {
		if strings.HasPrefix(k, "#") {
			continue
		}
		out = append(out, k)
	}
	sort.Strings(out)
	return out
}
