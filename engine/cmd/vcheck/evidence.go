package main

import (
	"fmt"
	"sort"

	"gosymx/interp"
)

func buildEvidence(prop, tier string, seed int, reports []*harnessReport, funcs map[string]bool, loadS, wall float64, confirmed, spurious, reachOK int, kf *knownFile, prog *interp.Program) map[string]interface{} {
	var states, trans, obl, dis, inc, checks, steps int64
	var samples []interface{}
	var assumptions []string
	var reduced []string
	var harnessInfo []interface{}
	for _, r := range reports {
		states += r.Stats.Paths
		trans += r.Stats.Forks
		obl += r.Stats.Obligations
		dis += r.Stats.Discharged
		inc += r.Stats.Inconclusive
		checks += r.Stats.SolverChecks
		steps += r.Stats.Steps
		s := map[string]interface{}{"harness": r.Name, "bounds": r.Bounds}
		if r.Sample != nil {
			s["one_completed_path"] = map[string]interface{}{"decisions": r.Sample.Decisions, "model": r.Sample.Model}
		}
		samples = append(samples, s)
		assumptions = append(assumptions, fmt.Sprintf("%s: %s", r.Name, r.Bounds))
		for _, x := range r.Reduced {
			reduced = append(reduced, r.Name+": "+x)
		}
		harnessInfo = append(harnessInfo, r)
	}
	if trans == 0 {
		trans = 1 // straight-line harnesses have one (trivial) transition: entry -> end
	}
	var fl []string
	for f := range funcs {
		fl = append(fl, f)
	}
	sort.Strings(fl)
	assumptions = append(assumptions,
		"generator outputs ((*PCGSource).Uint64) are arbitrary 64-bit values (nondeterministic stub); PCG's statistical quality is assumed",
		"time.Now is an arbitrary value; fmt/strconv/strings formatting follows the engine's rope model (decimal rendering of symbolic integers)",
		"Go semantics as implemented by gosymx (fork of x/tools go/ssa/interp); SSA built from /repo's working tree on this run",
		"counterexamples are reported only after native replay against the compiled repository code",
	)
	cov := map[string]interface{}{
		"states":                        states,
		"transitions":                   trans,
		"traces_validated_against_impl": reachOK + confirmed,
		"samples":                       samples,
		"obligations":                   obl,
		"discharged":                    dis,
		"inconclusive":                  inc,
		"solver_checks":                 checks,
		"solver_time_s":                 float64(interp.SolverStats.NanosSum) / 1e9,
		"solver_error_answers":          interp.SolverStats.Errors,
		"ssa_instructions":              steps,
		"functions_encoded":             fl,
		"harnesses":                     harnessInfo,
		"reduced":                       reduced,
		"spurious":                      spurious,
		"known_findings_hit":            kf.hitList(),
		"load_and_ssa_build_s":          loadS,
		"stubs":                         interp.ExternalNames(),
		"exhaustive":                    false,
		"explanation":                   "states = completed feasible paths of the harnesses (each path is decided for all values of its symbols by the SMT solver); transitions = symbolic branch decisions; obligations = verification conditions asked, discharged = answered unsat",
	}
	return map[string]interface{}{
		"property_id": prop,
		"tier":        tier,
		"seed":        seed,
		"level":       "model_checking",
		"coverage":    cov,
		"assumptions": assumptions,
		"wall_s":      wall,
		"violations":  confirmed,
	}
}
