package interp

// Path exploration by deterministic re-execution (KLEE-style forking without
// state cloning).  A path is a sequence of integer decisions.  A worker runs
// the harness following a decision prefix; at the first undecided symbolic
// branch it asks the solver which alternatives are feasible, follows one and
// queues the others.

import (
	"fmt"
	"go/types"
	"math"
	"os"
	"reflect"
	"sort"
	"strings"
	"sync"
	"time"
)

// Symbolic scalar values as they appear inside interpreter values.
type symInt struct {
	t *Term
	k types.BasicKind
}
type symBool struct{ t *Term }
type symFloat struct{ t *Term }

func kindWidth(k types.BasicKind) uint8 {
	switch k {
	case types.Int8, types.Uint8:
		return 8
	case types.Int16, types.Uint16:
		return 16
	case types.Int32, types.Uint32:
		return 32
	}
	return 64
}

func kindSigned(k types.BasicKind) bool {
	switch k {
	case types.Int, types.Int8, types.Int16, types.Int32, types.Int64:
		return true
	}
	return false
}

// pathAbort ends the current path without a verdict.
type pathAbort struct {
	kind string // assume | unsupported | steps | unwind | depth | missing-external | subsumed | engine
	msg  string
}

func (p pathAbort) String() string { return p.kind + ": " + p.msg }

// SymRec describes one symbol created on a path, in creation order.
type SymRec struct {
	Name  string `json:"name"`
	Kind  string `json:"kind"`  // nondet | draw | env
	Label string `json:"label"` // harness-given label
	W     int    `json:"w"`
	F     bool   `json:"f,omitempty"`
}

type Violation struct {
	Harness   string            `json:"harness"`
	Kind      string            `json:"kind"` // panic | assert | hang | fatal
	Tag       string            `json:"tag"`
	Msg       string            `json:"msg"`
	Where     string            `json:"where"`
	Stack     []string          `json:"stack,omitempty"`
	Syms      []SymRec          `json:"syms"`
	Model     map[string]uint64 `json:"model"`
	Decisions []int             `json:"decisions"`
	Notes     map[string]string `json:"notes,omitempty"`
}

type workItem struct {
	prefix []int
	model  Model
}

type PathResult struct {
	Status     string // done | abort:<kind> | violation
	Abort      *pathAbort
	Decisions  []int
	Steps      int64
	Violations []*Violation
	Syms       []SymRec
	Model      Model
	Reached    []string
}

// Explorer coordinates workers for one harness.
type Explorer struct {
	Harness    string
	Cfg        *ExploreConfig
	mu         sync.Mutex
	queue      []workItem
	inflight   int
	cond       *sync.Cond
	Stats      ExploreStats
	Violations []*Violation
	violSeen   map[string]bool
	Samples    []PathSample
	FuncsSeen  map[string]bool
	stop       bool
	deadline   time.Time
}

type PathSample struct {
	Decisions []int             `json:"decisions"`
	Model     map[string]uint64 `json:"model"`
	Syms      []SymRec          `json:"syms"`
	Reached   []string          `json:"reached,omitempty"`
	Obs       []string          `json:"observations,omitempty"`
}

type ExploreStats struct {
	Paths            int64             `json:"paths_completed"`
	Aborts           map[string]int64  `json:"aborts"`
	AbortSamples     map[string]string `json:"abort_samples"`
	Forks            int64             `json:"branch_decisions"`
	SolverChecks     int64             `json:"solver_checks"`
	Obligations      int64             `json:"obligations"`
	Discharged       int64             `json:"discharged"`
	Inconclusive     int64             `json:"inconclusive"`
	Steps            int64             `json:"ssa_instructions"`
	Reach            map[string]int64  `json:"reach"`
	PortfolioWins    map[string]int64  `json:"portfolio_wins"`
	TimedOut         bool              `json:"timed_out"`
	KnownHits        map[string]int64  `json:"known_findings_hit"`
	InconclusiveTags map[string]int64  `json:"inconclusive_tags,omitempty"`
}

type ExploreConfig struct {
	MaxSteps    int64 // per path
	MaxDepth    int
	MaxPaths    int64
	Unwind      int // max visits of one loop head with symbolic continuation per frame
	Workers     int
	Primary     SolverSpec
	Portfolio   []SolverSpec
	TimeBudget  time.Duration
	MaxViol     int
	KeepSamples int
	// Known maps violation signatures that are known findings: a path that
	// fails with such a signature is recorded as known, not as violation.
	Known func(v *Violation) (id string, ok bool)
	// Overrides: functions replaced by opaque stubs (havoc mode)
	Overrides map[string]bool
	Trace     bool
	Params    map[string]int
	LenCap    int
	// Summaries: function name (package under test) -> contract name
	Summaries map[string]string
	// UnwindOK: the harness states the unwind bound as part of its claim;
	// paths cut at the bound are counted, not reported as a reduced bound.
	UnwindOK bool
	// SigLabels: symbols (by harness label) whose model value is part of a
	// violation's identity (e.g. the program/template index)
	SigLabels []string
	// HangIsViolation: exceeding the step limit is reported as a hang
	HangIsViolation bool
	// DepthIsViolation: exceeding the call-depth limit is reported as stack exhaustion
	DepthIsViolation bool
}

// pathCtx is the per-path symbolic state.
type pathCtx struct {
	ex          *Explorer
	ar          termArena
	prefix      []int
	decisions   []int
	pc          []*Term
	sol         *Solver
	model       Model
	modelOK     bool
	syms        []SymRec
	steps       int64
	depth       int
	viols       []*Violation
	reached     []string
	nDraw       int
	drawsByRecv map[*value]int
	notes       map[string]string
	// loop bookkeeping for unwind / subsumption
	funcs map[string]bool
	// per-path stats
	forks, checks, obligations, discharged, inconclusive int64
	portfolioWins                                        map[string]int64
	knownHits                                            map[string]int64
	drawLog                                              []drawRec
	incTags                                              []string
	curLabel                                             string
	mapOrder                                             int
	approx                                               int64
	ufCache                                              map[string]*Term
	locksHeld                                            int
	pools                                                map[*value][]value
	maxDraws                                             int // harness-stated bound on dice per path (0 = none)
	sched                                                *sched
	onceDone                                             map[*value]bool
	modelOwned                                           uintptr // identity of the model map this path owns (may write)
	syncMaps                                             map[*value]*syncMapState
	schedClockDone                                       int
	sharedWrites                                         []string
	sharedWriteNames                                     map[string]bool
	jsonSent                                             map[int64]*Term
	jsonSentRev                                          map[*Term]int64
	top                                                  *frame
	bsets                                                map[string]*byteSet
	inexact                                              map[string]bool
	filterHits                                           int64
	obs                                                  []obsRec
	panicWhere                                           string
	panicStack                                           []string
	workUnits                                            int64
}

type drawRec struct {
	recv *value
	sym  *Term
}

func (px *pathCtx) abort(kind, format string, args ...interface{}) {
	msg := fmt.Sprintf(format, args...)
	if px.top != nil && (kind == "unsupported" || kind == "engine" || kind == "missing-external") {
		w, st := stackOf(px.top)
		if len(st) > 6 {
			st = st[:6]
		}
		msg += " @ " + w + " <- " + strings.Join(st, " <- ")
	}
	panic(pathAbort{kind, msg})
}

func (px *pathCtx) newSym(kind, label string, w uint8) *Term {
	name := fmt.Sprintf("s%d_%s", len(px.syms), sanitize(label))
	px.syms = append(px.syms, SymRec{Name: name, Kind: kind, Label: label, W: int(w)})
	return px.ar.Var(w, name)
}

func (px *pathCtx) newBoolSym(kind, label string) *Term {
	name := fmt.Sprintf("s%d_%s", len(px.syms), sanitize(label))
	px.syms = append(px.syms, SymRec{Name: name, Kind: kind, Label: label, W: 0})
	return px.ar.BoolVar(name)
}

func (px *pathCtx) newFloatSym(kind, label string) *Term {
	name := fmt.Sprintf("s%d_%s", len(px.syms), sanitize(label))
	px.syms = append(px.syms, SymRec{Name: name, Kind: kind, Label: label, W: 64, F: true})
	return px.ar.FVar(name)
}

func sanitize(s string) string {
	var sb strings.Builder
	for _, c := range s {
		if (c >= 'a' && c <= 'z') || (c >= 'A' && c <= 'Z') || (c >= '0' && c <= '9') || c == '_' {
			sb.WriteRune(c)
		} else {
			sb.WriteByte('_')
		}
	}
	return sb.String()
}

func (px *pathCtx) assertPC(t *Term) {
	if t.op == OpBoolConst {
		if t.cval == 0 {
			px.abort("engine", "asserting false into path condition")
		}
		return
	}
	px.pc = append(px.pc, t)
	px.refine(t)
	if err := px.sol.Assert(t); err != nil {
		px.abort("unsupported", "solver encoding: %v", err)
	}
}

// ---------------------------------------------------------------------
// Byte-set pre-filter: for every 8-bit symbol the set of values allowed by
// the unary constraints asserted so far.  While a symbol occurs only in
// unary constraints ("exact"), the set is precise and the symbol is
// independent of all others, so branch feasibility of a unary condition is
// decided by evaluating it over the set, without the solver.

type byteSet [4]uint64

func (b *byteSet) has(v int) bool { return b[v>>6]&(1<<(uint(v)&63)) != 0 }
func (b *byteSet) empty() bool    { return b[0]|b[1]|b[2]|b[3] == 0 }
func (b *byteSet) first() int {
	for v := 0; v < 256; v++ {
		if b.has(v) {
			return v
		}
	}
	return -1
}

var NoFilter = os.Getenv("VCHECK_NOFILTER") != ""

func unaryByteVar(t *Term) *Term {
	var vs []*Term
	collectVars(t, map[*Term]bool{}, &vs)
	if len(vs) == 1 && vs[0].op == OpVar && vs[0].w == 8 {
		return vs[0]
	}
	return nil
}

func (px *pathCtx) setOf(v *Term) *byteSet {
	if px.bsets == nil {
		px.bsets = map[string]*byteSet{}
		px.inexact = map[string]bool{}
	}
	s := px.bsets[v.name]
	if s == nil {
		s = &byteSet{^uint64(0), ^uint64(0), ^uint64(0), ^uint64(0)}
		px.bsets[v.name] = s
	}
	return s
}

// satSet returns the subset of cur on which t holds.
func satSet(t *Term, v *Term, cur *byteSet) byteSet {
	var out byteSet
	m := Model{}
	for x := 0; x < 256; x++ {
		if !cur.has(x) {
			continue
		}
		m[v.name] = uint64(x)
		if EvalTerm(t, m) == 1 {
			out[x>>6] |= 1 << (uint(x) & 63)
		}
	}
	return out
}

func (px *pathCtx) refine(t *Term) {
	if NoFilter {
		return
	}
	if v := unaryByteVar(t); v != nil {
		cur := px.setOf(v)
		ns := satSet(t, v, cur)
		*cur = ns
		return
	}
	var vs []*Term
	collectVars(t, map[*Term]bool{}, &vs)
	if px.inexact == nil {
		px.bsets = map[string]*byteSet{}
		px.inexact = map[string]bool{}
	}
	for _, v := range vs {
		px.inexact[v.name] = true
	}
}

// filterFork decides a fork whose conditions are all unary over one exact
// byte symbol.  Returns ok=false if the filter does not apply.
func (px *pathCtx) filterFork(conds []*Term) (feasible []bool, sets []byteSet, v *Term, ok bool) {
	if NoFilter {
		return nil, nil, nil, false
	}
	for _, c := range conds {
		if c.op == OpBoolConst {
			continue
		}
		u := unaryByteVar(c)
		if u == nil {
			return nil, nil, nil, false
		}
		if v == nil {
			v = u
		} else if v != u {
			return nil, nil, nil, false
		}
	}
	if v == nil || (px.inexact != nil && px.inexact[v.name]) {
		return nil, nil, nil, false
	}
	cur := px.setOf(v)
	feasible = make([]bool, len(conds))
	sets = make([]byteSet, len(conds))
	for i, c := range conds {
		if c.op == OpBoolConst {
			feasible[i] = c.cval == 1
			if feasible[i] {
				sets[i] = *cur
			}
			continue
		}
		sets[i] = satSet(c, v, cur)
		feasible[i] = !sets[i].empty()
	}
	return feasible, sets, v, true
}

// evalUnderModel returns (value, ok); ok=false if the model is unusable.
func (px *pathCtx) evalUnderModel(t *Term) (uint64, bool) {
	if !px.modelOK {
		return 0, false
	}
	return EvalTerm(t, px.model), true
}

// checkSat decides pc ∧ extra.  On Sat the model (over all path variables)
// is returned.  Falls back to the portfolio on unknown.
var SlowLog = os.Getenv("VCHECK_SLOWLOG") != ""

func (px *pathCtx) checkSat(extra *Term, needModel bool) (r Result, m Model) {
	if SlowLog {
		t0 := time.Now()
		defer func() {
			if d := time.Since(t0); d > 500*time.Millisecond {
				fmt.Fprintf(os.Stderr, "SLOW %.1fs %s -> %v (decisions=%v)\n", d.Seconds(), px.curLabel, r, px.decisions)
			}
		}()
	}
	return px.checkSat1(extra, needModel)
}

func (px *pathCtx) checkSat1(extra *Term, needModel bool) (Result, Model) {
	px.checks++
	r, err := px.sol.CheckWith(extra)
	if err != nil && px.sol.dead {
		px.abort("engine", "solver died: %v", err)
	}
	if r == Sat {
		var m Model
		if needModel {
			m, err = px.sol.Model(px.ar.vars)
			if err != nil {
				if SlowLog {
					fmt.Fprintf(os.Stderr, "  model error: %v\n", err)
				}
				m = nil
			}
		}
		px.sol.PopCheck()
		if needModel && m == nil {
			r = Unknown
		} else if needModel && px.sol.spec.IntEnc && !px.validModel(m, extra) {
			// artefact of an abstraction in the wrapped-Int encoding
			if SlowLog {
				fmt.Fprintf(os.Stderr, "  model of int encoding failed validation\n")
			}
			r = Unknown
		} else {
			return Sat, m
		}
	}
	if r == Unsat {
		return Unsat, nil
	}
	if px.replaying() {
		// feasibility questions during replay are not needed
	}
	// portfolio
	asserts := append(append([]*Term{}, px.pc...), extra)
	for _, spec := range px.ex.Cfg.Portfolio {
		px.checks++
		pr, m, d, perr := OneShot(spec, asserts)
		if SlowLog {
			fmt.Fprintf(os.Stderr, "  portfolio %s -> %v in %.1fs err=%v\n", spec, pr, d.Seconds(), perr)
		}
		if pr != Unknown {
			if px.portfolioWins == nil {
				px.portfolioWins = map[string]int64{}
			}
			px.portfolioWins[spec.String()]++
			if pr == Sat && needModel {
				if m == nil {
					continue
				}
				if !px.validModel(m, extra) {
					continue
				}
				// complete with vars not mentioned
				for _, v := range px.ar.vars {
					if _, ok := m[v.name]; !ok {
						m[v.name] = 0
					}
				}
			}
			return pr, m
		}
		// try sliced to cone of influence of extra
		sl := sliceCone(asserts, extra)
		if len(sl) < len(asserts) {
			px.checks++
			pr, _, _, _ := OneShot(spec, sl)
			if pr == Unsat {
				if px.portfolioWins == nil {
					px.portfolioWins = map[string]int64{}
				}
				px.portfolioWins[spec.String()+"/sliced"]++
				return Unsat, nil
			}
		}
	}
	return Unknown, nil
}

func (px *pathCtx) replaying() bool { return len(px.decisions) < len(px.prefix) }

// validModel re-evaluates the real terms (not their encoding) under m.
func (px *pathCtx) validModel(m Model, extra *Term) bool {
	ec := &evalCtx{m: m, memo: map[*Term]uint64{}}
	for _, c := range px.pc {
		if ec.eval(c) != 1 {
			return false
		}
	}
	return ec.eval(extra) == 1
}

// sliceCone keeps the assertions sharing (transitively) variables with goal.
func sliceCone(asserts []*Term, goal *Term) []*Term {
	varsOf := make([][]*Term, len(asserts))
	for i, a := range asserts {
		var vs []*Term
		collectVars(a, map[*Term]bool{}, &vs)
		varsOf[i] = vs
	}
	in := map[*Term]bool{}
	var gv []*Term
	collectVars(goal, map[*Term]bool{}, &gv)
	for _, v := range gv {
		in[v] = true
	}
	keep := make([]bool, len(asserts))
	for changed := true; changed; {
		changed = false
		for i := range asserts {
			if keep[i] {
				continue
			}
			hit := false
			for _, v := range varsOf[i] {
				if in[v] {
					hit = true
					break
				}
			}
			if hit {
				keep[i] = true
				changed = true
				for _, v := range varsOf[i] {
					in[v] = true
				}
			}
		}
	}
	var out []*Term
	for i, a := range asserts {
		if keep[i] {
			out = append(out, a)
		}
	}
	return out
}

// fork chooses among mutually exclusive, jointly exhaustive conditions.
func (px *pathCtx) fork(conds []*Term) int {
	// constant pruning
	nFeasibleConst := 0
	last := -1
	for i, c := range conds {
		if !(c.op == OpBoolConst && c.cval == 0) {
			nFeasibleConst++
			last = i
		}
	}
	if nFeasibleConst == 1 {
		return last
	}
	if nFeasibleConst == 0 {
		px.abort("engine", "fork with no alternative")
	}
	idx := len(px.decisions)
	px.forks++
	if idx < len(px.prefix) {
		k := px.prefix[idx]
		px.decisions = append(px.decisions, k)
		px.assertPC(conds[k])
		return k
	}
	// new decision point
	if feas, sets, fv, ok := px.filterFork(conds); ok && px.modelOK {
		px.filterHits++
		chosen := -1
		for i := range conds {
			if !feas[i] {
				continue
			}
			if chosen < 0 {
				chosen = i
				continue
			}
			np := make([]int, idx+1)
			copy(np, px.decisions)
			np[idx] = i
			m := make(Model, len(px.model)+1)
			for k, x := range px.model {
				m[k] = x
			}
			m[fv.name] = uint64(sets[i].first())
			px.ex.enqueue(workItem{prefix: np, model: m})
		}
		if chosen < 0 {
			px.abort("engine", "no feasible alternative at fork (filter)")
		}
		if cur, ok := px.model[fv.name]; !ok || !sets[chosen].has(int(cur)) {
			nm := make(Model, len(px.model)+1)
			for k, x := range px.model {
				nm[k] = x
			}
			nm[fv.name] = uint64(sets[chosen].first())
			px.model = nm
		}
		px.decisions = append(px.decisions, chosen)
		px.assertPC(conds[chosen])
		return chosen
	}
	free := -1
	if px.modelOK {
		for i, c := range conds {
			if c.op == OpBoolConst && c.cval == 0 {
				continue
			}
			if EvalTerm(c, px.model) == 1 {
				free = i
				break
			}
		}
	}
	chosen := free
	var chosenModel Model
	for i, c := range conds {
		if i == free || (c.op == OpBoolConst && c.cval == 0) {
			continue
		}
		r, m := px.checkSat(c, true)
		if r == Unsat {
			continue
		}
		if chosen < 0 {
			chosen = i
			chosenModel = m // may be nil on Unknown
			if r == Unknown {
				chosenModel = nil
			}
			continue
		}
		// queue alternative
		np := make([]int, idx+1)
		copy(np, px.decisions)
		np[idx] = i
		if r == Unknown {
			m = nil
		}
		px.ex.enqueue(workItem{prefix: np, model: m})
	}
	if chosen < 0 {
		px.abort("engine", "no feasible alternative at fork (pc unsat?)")
	}
	px.decisions = append(px.decisions, chosen)
	px.assertPC(conds[chosen])
	if chosen != free {
		if chosenModel != nil {
			px.model = chosenModel
			px.modelOK = true
		} else {
			px.modelOK = false
		}
	}
	return chosen
}

func (px *pathCtx) forkBool(c *Term) bool {
	if c.op == OpBoolConst {
		return c.cval == 1
	}
	return px.fork([]*Term{c, px.ar.Not(c)}) == 0
}

// assume adds c to the path condition, aborting the path if infeasible.
func (px *pathCtx) assume(c *Term) {
	if c.op == OpBoolConst {
		if c.cval == 0 {
			px.abort("assume", "assumption false")
		}
		return
	}
	if len(px.decisions) < len(px.prefix) {
		// replaying: the queued model already satisfies this assumption
		px.assertPC(c)
		return
	}
	if px.modelOK && EvalTerm(c, px.model) == 1 {
		px.assertPC(c)
		return
	}
	r, m := px.checkSat(c, true)
	switch r {
	case Unsat:
		px.abort("assume", "assumption infeasible")
	case Sat:
		px.model, px.modelOK = m, true
	default:
		px.modelOK = false
	}
	px.assertPC(c)
}

// pinFresh constrains a symbol that occurs in no other constraint yet to a
// constant.  The current model stays a model after setting the symbol, so no
// solver call is needed (paths that pin tens of thousands of generator outputs
// would otherwise send the growing path condition to the solver each time).
func (px *pathCtx) pinFresh(sym *Term, val uint64) {
	c := px.ar.Eq(sym, px.ar.Const(sym.w, val))
	if len(px.decisions) < len(px.prefix) || !px.modelOK {
		px.assume(c)
		return
	}
	if px.modelOwned != reflect.ValueOf(px.model).Pointer() {
		nm := make(Model, len(px.model)+64)
		for k, v := range px.model {
			nm[k] = v
		}
		px.model = nm
		px.modelOwned = reflect.ValueOf(nm).Pointer()
	}
	px.model[sym.name] = val
	px.assertPC(c)
}

// symCheck records a verification condition: c must hold on this path.
func (px *pathCtx) vassert(c *Term, tag string, fr *frame) {
	if c.op == OpBoolConst {
		if c.cval == 1 {
			return
		}
		px.violation("assert", tag, "assertion failed (concrete on this path)", fr, nil)
		px.abort("assert-failed", "%s", tag)
	}
	if len(px.decisions) < len(px.prefix) {
		// replaying: this obligation was decided by the path that queued us
		px.assertPC(c)
		return
	}
	px.obligations++
	px.curLabel = "vassert " + tag
	neg := px.ar.Not(c)
	r, m := px.checkSat(neg, true)
	switch r {
	case Unsat:
		px.discharged++
		// pc implies c: the path condition is unchanged in meaning
		px.assertPC(c)
		return
	case Sat:
		px.violation("assert", tag, "assertion can fail", fr, m)
	default:
		px.inconclusive++
		px.incTags = append(px.incTags, tag)
	}
	// continue under c
	r2, m2 := px.checkSat(c, true)
	switch r2 {
	case Unsat:
		px.abort("assert-failed", "%s (always fails here)", tag)
	case Sat:
		px.model, px.modelOK = m2, true
	default:
		px.modelOK = false
	}
	px.assertPC(c)
}

func (px *pathCtx) note(k, v string) {
	if px.notes == nil {
		px.notes = map[string]string{}
	}
	if old, ok := px.notes[k]; ok {
		v = old + "; " + v
	}
	px.notes[k] = v
}

func (px *pathCtx) violation(kind, tag, msg string, fr *frame, m Model) {
	if m == nil {
		m = px.model
		if !px.modelOK {
			// need a model of the pc
			r, mm := px.checkSat(tTrue, true)
			if r == Sat {
				m = mm
			}
		}
	}
	v := &Violation{
		Harness:   px.ex.Harness,
		Kind:      kind,
		Tag:       tag,
		Msg:       msg,
		Syms:      append([]SymRec{}, px.syms...),
		Model:     map[string]uint64{},
		Decisions: append([]int{}, px.decisions...),
	}
	for _, s := range px.syms {
		v.Model[s.Name] = m[s.Name]
	}
	if fr != nil {
		v.Where, v.Stack = stackOf(fr)
	} else if px.panicStack != nil {
		v.Where, v.Stack = px.panicWhere, px.panicStack
	}
	if px.approx > 0 {
		px.note("approx", "path took an over-approximated string comparison")
	}
	if len(px.notes) > 0 {
		v.Notes = map[string]string{}
		for k, x := range px.notes {
			v.Notes[k] = x
		}
	}
	px.viols = append(px.viols, v)
}

func stackOf(fr *frame) (string, []string) {
	var st []string
	where := ""
	for f := fr; f != nil; f = f.caller {
		name := f.fn.String()
		pos := ""
		if f.curInstr != nil && f.curInstr.Pos().IsValid() {
			p := f.fn.Prog.Fset.Position(f.curInstr.Pos())
			pos = fmt.Sprintf("%s:%d", shortFile(p.Filename), p.Line)
		}
		st = append(st, name+" "+pos)
		if where == "" && !strings.Contains(name, ".VH_") && !strings.Contains(name, ".vh") {
			where = name + " " + pos
		}
		if len(st) > 24 {
			break
		}
	}
	return where, st
}

func shortFile(f string) string {
	if i := strings.LastIndex(f, "/"); i >= 0 {
		return f[i+1:]
	}
	return f
}

// ---------------------------------------------------------------------

func (ex *Explorer) enqueue(w workItem) {
	ex.mu.Lock()
	ex.queue = append(ex.queue, w)
	ex.mu.Unlock()
	ex.cond.Signal()
}

func (ex *Explorer) dequeue() (workItem, bool) {
	ex.mu.Lock()
	defer ex.mu.Unlock()
	for {
		if ex.stop {
			return workItem{}, false
		}
		if n := len(ex.queue); n > 0 {
			w := ex.queue[n-1]
			ex.queue = ex.queue[:n-1]
			ex.inflight++
			return w, true
		}
		if ex.inflight == 0 {
			ex.cond.Broadcast()
			return workItem{}, false
		}
		ex.cond.Wait()
	}
}

func (ex *Explorer) done(res *PathResult, px *pathCtx) {
	ex.mu.Lock()
	defer ex.mu.Unlock()
	ex.inflight--
	st := &ex.Stats
	st.Forks += px.forks
	st.SolverChecks += px.checks
	st.Obligations += px.obligations
	st.Discharged += px.discharged
	st.Inconclusive += px.inconclusive
	st.Steps += px.steps
	for k, v := range px.portfolioWins {
		st.PortfolioWins[k] += v
	}
	for k := range px.funcs {
		ex.FuncsSeen[k] = true
	}
	for _, t := range px.incTags {
		if st.InconclusiveTags == nil {
			st.InconclusiveTags = map[string]int64{}
		}
		st.InconclusiveTags[t]++
	}
	for _, r := range px.reached {
		st.Reach[r]++
	}
	if res.Abort != nil {
		st.Aborts[res.Abort.kind]++
		if _, ok := st.AbortSamples[res.Abort.kind]; !ok {
			st.AbortSamples[res.Abort.kind] = res.Abort.msg
		}
	} else {
		st.Paths++
		st.Reach["end"]++
		if len(ex.Samples) < ex.Cfg.KeepSamples || (st.Paths&(st.Paths-1)) == 0 && len(ex.Samples) < 4*ex.Cfg.KeepSamples {
			m := map[string]uint64{}
			if px.modelOK {
				for _, s := range px.syms {
					m[s.Name] = px.model[s.Name]
				}
				ex.Samples = append(ex.Samples, PathSample{Decisions: res.Decisions, Model: m, Syms: px.syms, Reached: px.reached, Obs: px.evalObs()})
			}
		}
	}
	for _, v := range px.viols {
		if ex.Cfg.Known != nil {
			if id, ok := ex.Cfg.Known(v); ok {
				st.KnownHits[id]++
				continue
			}
		}
		sig := v.Kind + "|" + v.Tag + "|" + v.Where + "|" + v.Msg
		if len(v.Stack) > 1 {
			sig += "|" + v.Stack[1]
		}
		for _, lab := range ex.Cfg.SigLabels {
			for _, sy := range v.Syms {
				if sy.Label == lab {
					sig += fmt.Sprintf("|%s=%d", lab, v.Model[sy.Name])
				}
			}
		}
		if ex.violSeen[sig] {
			continue
		}
		ex.violSeen[sig] = true
		ex.Violations = append(ex.Violations, v)
	}
	if ex.Cfg.MaxViol > 0 && len(ex.Violations) >= ex.Cfg.MaxViol {
		ex.stop = true
	}
	if ex.Cfg.MaxPaths > 0 && st.Paths+sumAborts(st.Aborts) >= ex.Cfg.MaxPaths {
		ex.stop = true
		st.TimedOut = true
	}
	if !ex.deadline.IsZero() && time.Now().After(ex.deadline) {
		ex.stop = true
		st.TimedOut = true
	}
	ex.cond.Broadcast()
}

func sumAborts(m map[string]int64) int64 {
	var n int64
	for _, v := range m {
		n += v
	}
	return n
}

func NewExplorer(h string, cfg *ExploreConfig) *Explorer {
	ex := &Explorer{Harness: h, Cfg: cfg, violSeen: map[string]bool{}, FuncsSeen: map[string]bool{}}
	ex.cond = sync.NewCond(&ex.mu)
	ex.Stats.Aborts = map[string]int64{}
	ex.Stats.AbortSamples = map[string]string{}
	ex.Stats.Reach = map[string]int64{}
	ex.Stats.PortfolioWins = map[string]int64{}
	ex.Stats.KnownHits = map[string]int64{}
	if cfg.TimeBudget > 0 {
		ex.deadline = time.Now().Add(cfg.TimeBudget)
	}
	return ex
}

func (ex *Explorer) SortedFuncs() []string {
	var out []string
	for k := range ex.FuncsSeen {
		out = append(out, k)
	}
	sort.Strings(out)
	return out
}

type obsRec struct {
	key string
	val value
}

// evalObs renders the path's observations under its model.
func (px *pathCtx) evalObs() []string {
	var out []string
	for _, o := range px.obs {
		out = append(out, o.key+"="+evalString(o.val, px.model))
	}
	return out
}

func evalString(v value, m Model) string {
	switch s := v.(type) {
	case string:
		return s
	case *rope:
		var sb strings.Builder
		for _, p := range s.parts {
			switch p.kind {
			case rkLit:
				sb.WriteString(p.lit)
			case rkNum:
				sb.WriteString(fmt.Sprint(int64(EvalTerm(p.num, m))))
			case rkBytes:
				for _, b := range p.bytes {
					sb.WriteByte(byte(EvalTerm(b, m)))
				}
			default:
				sb.WriteString("?")
			}
		}
		return sb.String()
	case symInt:
		x := EvalTerm(s.t, m)
		if kindSigned(s.k) {
			return fmt.Sprint(sext64(x, s.t.w))
		}
		return fmt.Sprint(x)
	case symBool:
		return fmt.Sprint(EvalTerm(s.t, m) == 1)
	case symFloat:
		return fmt.Sprint(math.Float64frombits(EvalTerm(s.t, m)))
	case iface:
		return evalString(s.v, m)
	}
	return fmt.Sprint(v)
}
