package interp

// Symbolic terms: a small DAG of machine-level operations over bit-vectors
// (width 1..64), booleans and float64.  Two printers exist: bit-vector SMT-LIB
// and "wrapped Int" SMT-LIB (every machine op followed by mod 2^w).

import (
	"fmt"
	"math"
	"math/bits"
	"strings"
)

type Op uint8

const (
	OpConst Op = iota // BV constant (w, cval)
	OpVar             // BV variable (w, name)
	OpBoolConst
	OpBoolVar
	OpNot
	OpAnd
	OpOr
	OpEq  // BV/bool/float(bit) equality -> bool
	OpIte // (bool, a, b)
	OpAdd
	OpSub
	OpMul
	OpUDiv
	OpURem
	OpSDiv
	OpSRem
	OpBAnd
	OpBOr
	OpBXor
	OpBNot
	OpNeg
	OpShl
	OpLShr
	OpAShr
	OpUlt
	OpUle
	OpSlt
	OpSle
	OpZExt  // to width w
	OpSExt  // to width w
	OpTrunc // low w bits
	// float64 (sort Float64); F-terms have w==64 and isF
	OpFConst
	OpFVar
	OpFAdd
	OpFSub
	OpFMul
	OpFDiv
	OpFNeg
	OpFLt
	OpFLe
	OpFEq    // IEEE equality
	OpFFromS // signed BV -> float (RNE)
	OpFFromU // unsigned BV -> float
	OpFToS   // float -> signed BV of width w, RTZ (unspecified if out of range)
	OpFIsNaN // bool
	OpFIsInf // bool
	OpFRound // cval: 0 floor 1 ceil 2 round-half-away 3 trunc
	OpFBits  // float -> BV64 (uninterpreted on NaN payload; we model via fresh var + to_fp constraint elsewhere) -- unused
	OpDecLen // number of bytes FormatInt(signed64 x,10) produces -> BV64
	OpUF     // uninterpreted function application name(args) -> BV w or float
)

type Term struct {
	op   Op
	w    uint8 // result width for BV; 0 for bool; 64 + isF for float
	isF  bool
	args []*Term
	cval uint64
	name string
	id   int32
}

func (t *Term) IsBool() bool  { return t.w == 0 && !t.isF }
func (t *Term) IsConst() bool { return t.op == OpConst || t.op == OpBoolConst || t.op == OpFConst }

// termArena numbers terms; one per path.
type termArena struct {
	n    int32
	vars []*Term
	// hash-consing: structurally equal terms are the same object, so that
	// implementation and reference computations of the same expression are
	// decided equal without a solver call
	cons map[termKeyT]*Term
}

type termKeyT struct {
	op         Op
	w          uint8
	cval       uint64
	a0, a1, a2 int32
}

var (
	tTrue  = &Term{op: OpBoolConst, cval: 1, id: -1}
	tFalse = &Term{op: OpBoolConst, cval: 0, id: -2}
)

func mask(w uint8) uint64 {
	if w >= 64 {
		return ^uint64(0)
	}
	return (uint64(1) << w) - 1
}

func (a *termArena) mk(op Op, w uint8, args ...*Term) *Term {
	if len(args) <= 3 && op != OpFRound && op != OpUF {
		k := termKeyT{op: op, w: w}
		if len(args) > 0 {
			k.a0 = args[0].id
		}
		if len(args) > 1 {
			k.a1 = args[1].id
		}
		if len(args) > 2 {
			k.a2 = args[2].id
		}
		if a.cons == nil {
			a.cons = map[termKeyT]*Term{}
		}
		if t, ok := a.cons[k]; ok {
			return t
		}
		a.n++
		t := &Term{op: op, w: w, args: args, id: a.n}
		a.cons[k] = t
		return t
	}
	a.n++
	return &Term{op: op, w: w, args: args, id: a.n}
}

func (a *termArena) Const(w uint8, v uint64) *Term {
	k := termKeyT{op: OpConst, w: w, cval: v & mask(w)}
	if a.cons == nil {
		a.cons = map[termKeyT]*Term{}
	}
	if t, ok := a.cons[k]; ok {
		return t
	}
	a.n++
	t := &Term{op: OpConst, w: w, cval: v & mask(w), id: a.n}
	a.cons[k] = t
	return t
}

func (a *termArena) Bool(b bool) *Term {
	if b {
		return tTrue
	}
	return tFalse
}

func (a *termArena) Var(w uint8, name string) *Term {
	a.n++
	t := &Term{op: OpVar, w: w, name: name, id: a.n}
	a.vars = append(a.vars, t)
	return t
}

func (a *termArena) BoolVar(name string) *Term {
	a.n++
	t := &Term{op: OpBoolVar, name: name, id: a.n}
	a.vars = append(a.vars, t)
	return t
}

func (a *termArena) FVar(name string) *Term {
	a.n++
	t := &Term{op: OpFVar, w: 64, isF: true, name: name, id: a.n}
	a.vars = append(a.vars, t)
	return t
}

func (a *termArena) FConst(f float64) *Term {
	k := termKeyT{op: OpFConst, w: 64, cval: math.Float64bits(f)}
	if a.cons == nil {
		a.cons = map[termKeyT]*Term{}
	}
	if t, ok := a.cons[k]; ok {
		return t
	}
	a.n++
	t := &Term{op: OpFConst, w: 64, isF: true, cval: math.Float64bits(f), id: a.n}
	a.cons[k] = t
	return t
}

func sext64(v uint64, w uint8) int64 {
	if w >= 64 {
		return int64(v)
	}
	sh := 64 - uint(w)
	return int64(v<<sh) >> sh
}

// evalConstOp computes op on constant BV args.  ok=false if not foldable.
func evalBVOp(op Op, w uint8, x, y uint64) (uint64, bool) {
	m := mask(w)
	switch op {
	case OpAdd:
		return (x + y) & m, true
	case OpSub:
		return (x - y) & m, true
	case OpMul:
		return (x * y) & m, true
	case OpUDiv:
		if y == 0 {
			return m, true
		}
		return x / y, true
	case OpURem:
		if y == 0 {
			return x, true
		}
		return x % y, true
	case OpSDiv:
		sx, sy := sext64(x, w), sext64(y, w)
		if sy == 0 {
			if sx < 0 {
				return 1, true
			}
			return m, true
		}
		if sy == -1 {
			return uint64(-sx) & m, true
		}
		return uint64(sx/sy) & m, true
	case OpSRem:
		sx, sy := sext64(x, w), sext64(y, w)
		if sy == 0 {
			return x, true
		}
		if sy == -1 {
			return 0, true
		}
		return uint64(sx%sy) & m, true
	case OpBAnd:
		return x & y, true
	case OpBOr:
		return x | y, true
	case OpBXor:
		return x ^ y, true
	case OpShl:
		if y >= uint64(w) {
			return 0, true
		}
		return (x << y) & m, true
	case OpLShr:
		if y >= uint64(w) {
			return 0, true
		}
		return x >> y, true
	case OpAShr:
		sx := sext64(x, w)
		if y >= uint64(w) {
			y = uint64(w) - 1
		}
		return uint64(sx>>y) & m, true
	}
	return 0, false
}

func evalCmp(op Op, w uint8, x, y uint64) bool {
	switch op {
	case OpUlt:
		return x < y
	case OpUle:
		return x <= y
	case OpSlt:
		return sext64(x, w) < sext64(y, w)
	case OpSle:
		return sext64(x, w) <= sext64(y, w)
	}
	panic("evalCmp")
}

func (a *termArena) Bin(op Op, x, y *Term) *Term {
	if x.w != y.w {
		panic(fmt.Sprintf("Bin width mismatch %d %d (op %d)", x.w, y.w, op))
	}
	if x.op == OpConst && y.op == OpConst {
		if v, ok := evalBVOp(op, x.w, x.cval, y.cval); ok {
			return a.Const(x.w, v)
		}
	}
	// light identities
	switch op {
	case OpAdd:
		if x.op == OpConst && x.cval == 0 {
			return y
		}
		if y.op == OpConst && y.cval == 0 {
			return x
		}
	case OpSub:
		if y.op == OpConst && y.cval == 0 {
			return x
		}
	case OpMul:
		if x.op == OpConst && x.cval == 1 {
			return y
		}
		if y.op == OpConst && y.cval == 1 {
			return x
		}
		if (x.op == OpConst && x.cval == 0) || (y.op == OpConst && y.cval == 0) {
			return a.Const(x.w, 0)
		}
	case OpBAnd:
		if (x.op == OpConst && x.cval == 0) || (y.op == OpConst && y.cval == 0) {
			return a.Const(x.w, 0)
		}
		if x.op == OpConst && x.cval == mask(x.w) {
			return y
		}
		if y.op == OpConst && y.cval == mask(x.w) {
			return x
		}
	case OpBOr, OpBXor:
		if x.op == OpConst && x.cval == 0 {
			return y
		}
		if y.op == OpConst && y.cval == 0 {
			return x
		}
	}
	return a.mk(op, x.w, x, y)
}

func (a *termArena) Cmp(op Op, x, y *Term) *Term {
	if x.w != y.w {
		panic(fmt.Sprintf("Cmp width mismatch %d %d", x.w, y.w))
	}
	if x.op == OpConst && y.op == OpConst {
		return a.Bool(evalCmp(op, x.w, x.cval, y.cval))
	}
	if x == y {
		return a.Bool(op == OpUle || op == OpSle)
	}
	return a.mk(op, 0, x, y)
}

func (a *termArena) Eq(x, y *Term) *Term {
	if x == y && !x.isF {
		return tTrue
	}
	if x.IsBool() != y.IsBool() || x.w != y.w || x.isF != y.isF {
		panic(fmt.Sprintf("Eq sort mismatch w=%d/%d", x.w, y.w))
	}
	if x.op == OpConst && y.op == OpConst {
		return a.Bool(x.cval == y.cval)
	}
	if x.op == OpBoolConst && y.op == OpBoolConst {
		return a.Bool(x.cval == y.cval)
	}
	if x.op == OpBoolConst {
		x, y = y, x
	}
	if y.op == OpBoolConst {
		if y.cval == 1 {
			return x
		}
		return a.Not(x)
	}
	// eq(zext(b), const) patterns keep parser constraints unary and small
	if y.op == OpConst && (x.op == OpZExt) {
		inner := x.args[0]
		if y.cval > mask(inner.w) {
			return tFalse
		}
		return a.Eq(inner, a.Const(inner.w, y.cval))
	}
	if x.op == OpConst && (y.op == OpZExt) {
		return a.Eq(y, x)
	}
	return a.mk(OpEq, 0, x, y)
}

func (a *termArena) Not(x *Term) *Term {
	if x.op == OpBoolConst {
		return a.Bool(x.cval == 0)
	}
	if x.op == OpNot {
		return x.args[0]
	}
	return a.mk(OpNot, 0, x)
}

func (a *termArena) And(x, y *Term) *Term {
	if x.op == OpBoolConst {
		if x.cval == 1 {
			return y
		}
		return tFalse
	}
	if y.op == OpBoolConst {
		if y.cval == 1 {
			return x
		}
		return tFalse
	}
	return a.mk(OpAnd, 0, x, y)
}

func (a *termArena) Or(x, y *Term) *Term {
	if x.op == OpBoolConst {
		if x.cval == 1 {
			return tTrue
		}
		return y
	}
	if y.op == OpBoolConst {
		if y.cval == 1 {
			return tTrue
		}
		return x
	}
	return a.mk(OpOr, 0, x, y)
}

func (a *termArena) Ite(c, x, y *Term) *Term {
	if c.op == OpBoolConst {
		if c.cval == 1 {
			return x
		}
		return y
	}
	if x == y {
		return x
	}
	t := a.mk(OpIte, x.w, c, x, y)
	t.isF = x.isF
	return t
}

func (a *termArena) Un(op Op, x *Term) *Term {
	if x.op == OpConst {
		switch op {
		case OpBNot:
			return a.Const(x.w, ^x.cval)
		case OpNeg:
			return a.Const(x.w, -x.cval)
		}
	}
	return a.mk(op, x.w, x)
}

func (a *termArena) ZExt(x *Term, w uint8) *Term {
	if w == x.w {
		return x
	}
	if w < x.w {
		return a.Trunc(x, w)
	}
	if x.op == OpConst {
		return a.Const(w, x.cval)
	}
	return a.mk(OpZExt, w, x)
}

func (a *termArena) SExt(x *Term, w uint8) *Term {
	if w == x.w {
		return x
	}
	if w < x.w {
		return a.Trunc(x, w)
	}
	if x.op == OpConst {
		return a.Const(w, uint64(sext64(x.cval, x.w)))
	}
	return a.mk(OpSExt, w, x)
}

func (a *termArena) Trunc(x *Term, w uint8) *Term {
	if w == x.w {
		return x
	}
	if x.op == OpConst {
		return a.Const(w, x.cval)
	}
	if (x.op == OpZExt || x.op == OpSExt) && x.args[0].w == w {
		return x.args[0]
	}
	if (x.op == OpZExt || x.op == OpSExt) && x.args[0].w < w {
		if x.op == OpZExt {
			return a.ZExt(x.args[0], w)
		}
		return a.SExt(x.args[0], w)
	}
	return a.mk(OpTrunc, w, x)
}

// ---------------------------------------------------------------------
// Evaluation under a model (variables by name).

type Model map[string]uint64

type evalCtx struct {
	m    Model
	memo map[*Term]uint64
	// missing is set when a variable has no value in the model (treated as 0)
	missing bool
}

func EvalTerm(t *Term, m Model) uint64 {
	ec := &evalCtx{m: m, memo: map[*Term]uint64{}}
	return ec.eval(t)
}

func b2u(b bool) uint64 {
	if b {
		return 1
	}
	return 0
}

func decLen(x int64) uint64 {
	n := uint64(0)
	if x < 0 {
		n = 1
	}
	ux := uint64(x)
	if x < 0 {
		ux = -ux
	}
	d := uint64(1)
	for ux >= 10 {
		ux /= 10
		d++
	}
	return n + d
}

func (ec *evalCtx) eval(t *Term) uint64 {
	switch t.op {
	case OpConst, OpBoolConst, OpFConst:
		return t.cval
	case OpVar, OpBoolVar, OpFVar:
		v, ok := ec.m[t.name]
		if !ok {
			ec.missing = true
		}
		if t.op == OpVar {
			v &= mask(t.w)
		}
		return v
	}
	if v, ok := ec.memo[t]; ok {
		return v
	}
	var r uint64
	switch t.op {
	case OpNot:
		r = 1 - ec.eval(t.args[0])
	case OpAnd:
		r = ec.eval(t.args[0]) & ec.eval(t.args[1])
	case OpOr:
		r = ec.eval(t.args[0]) | ec.eval(t.args[1])
	case OpEq:
		r = b2u(ec.eval(t.args[0]) == ec.eval(t.args[1]))
	case OpIte:
		if ec.eval(t.args[0]) == 1 {
			r = ec.eval(t.args[1])
		} else {
			r = ec.eval(t.args[2])
		}
	case OpAdd, OpSub, OpMul, OpUDiv, OpURem, OpSDiv, OpSRem, OpBAnd, OpBOr, OpBXor, OpShl, OpLShr, OpAShr:
		r, _ = evalBVOp(t.op, t.w, ec.eval(t.args[0]), ec.eval(t.args[1]))
	case OpUlt, OpUle, OpSlt, OpSle:
		r = b2u(evalCmp(t.op, t.args[0].w, ec.eval(t.args[0]), ec.eval(t.args[1])))
	case OpBNot:
		r = ^ec.eval(t.args[0]) & mask(t.w)
	case OpNeg:
		r = -ec.eval(t.args[0]) & mask(t.w)
	case OpZExt:
		r = ec.eval(t.args[0])
	case OpSExt:
		r = uint64(sext64(ec.eval(t.args[0]), t.args[0].w)) & mask(t.w)
	case OpTrunc:
		r = ec.eval(t.args[0]) & mask(t.w)
	case OpDecLen:
		r = decLen(int64(ec.eval(t.args[0])))
	case OpFAdd, OpFSub, OpFMul, OpFDiv:
		x := math.Float64frombits(ec.eval(t.args[0]))
		y := math.Float64frombits(ec.eval(t.args[1]))
		var f float64
		switch t.op {
		case OpFAdd:
			f = x + y
		case OpFSub:
			f = x - y
		case OpFMul:
			f = x * y
		case OpFDiv:
			f = x / y
		}
		r = math.Float64bits(f)
	case OpFNeg:
		r = math.Float64bits(-math.Float64frombits(ec.eval(t.args[0])))
	case OpFLt, OpFLe, OpFEq:
		x := math.Float64frombits(ec.eval(t.args[0]))
		y := math.Float64frombits(ec.eval(t.args[1]))
		switch t.op {
		case OpFLt:
			r = b2u(x < y)
		case OpFLe:
			r = b2u(x <= y)
		case OpFEq:
			r = b2u(x == y)
		}
	case OpFFromS:
		r = math.Float64bits(float64(sext64(ec.eval(t.args[0]), t.args[0].w)))
	case OpFFromU:
		r = math.Float64bits(float64(ec.eval(t.args[0])))
	case OpFToS:
		f := math.Float64frombits(ec.eval(t.args[0]))
		r = uint64(int64(f)) & mask(t.w)
	case OpFIsNaN:
		f := math.Float64frombits(ec.eval(t.args[0]))
		r = b2u(f != f)
	case OpFIsInf:
		r = b2u(math.IsInf(math.Float64frombits(ec.eval(t.args[0])), 0))
	case OpFRound:
		f := math.Float64frombits(ec.eval(t.args[0]))
		switch t.cval {
		case 0:
			f = math.Floor(f)
		case 1:
			f = math.Ceil(f)
		case 2:
			f = math.Round(f)
		case 3:
			f = math.Trunc(f)
		}
		r = math.Float64bits(f)
	case OpUF:
		// uninterpreted: value comes from the model under the application's name
		v, ok := ec.m[t.name]
		if !ok {
			ec.missing = true
		}
		r = v
	default:
		panic(fmt.Sprintf("eval: op %d", t.op))
	}
	ec.memo[t] = r
	return r
}

// ---------------------------------------------------------------------
// SMT-LIB printing (bit-vector encoding).  Every non-leaf node is emitted
// once as (define-fun tN () Sort expr).

type smtPrinter struct {
	sb         *strings.Builder
	emitted    map[*Term]bool
	intEnc     bool // wrapped-Int encoding
	err        error
	nUnk       int
	abstracted bool
}

// IntPreamble defines helpers of the wrapped-Int encoding.
func IntPreamble() string {
	var sb strings.Builder
	sb.WriteString("(define-fun pow2or0 ((x Int)) Bool (or (= x 0)")
	for k := 0; k < 64; k++ {
		fmt.Fprintf(&sb, " (= x %s)", pow2str(uint8(k)))
	}
	sb.WriteString("))\n")
	return sb.String()
}

func sortOf(t *Term, intEnc bool) string {
	if t.isF {
		return "(_ FloatingPoint 11 53)"
	}
	if t.w == 0 {
		return "Bool"
	}
	if intEnc {
		return "Int"
	}
	return fmt.Sprintf("(_ BitVec %d)", t.w)
}

func bvLit(w uint8, v uint64) string {
	if w%4 == 0 {
		return fmt.Sprintf("#x%0*x", int(w/4), v&mask(w))
	}
	return fmt.Sprintf("#b%0*b", int(w), v&mask(w))
}

func pow2str(w uint8) string {
	if w < 64 {
		return fmt.Sprintf("%d", uint64(1)<<w)
	}
	return "18446744073709551616"
}

func (p *smtPrinter) ref(t *Term) string {
	switch t.op {
	case OpConst:
		if p.intEnc {
			return fmt.Sprintf("%d", t.cval)
		}
		return bvLit(t.w, t.cval)
	case OpBoolConst:
		if t.cval == 1 {
			return "true"
		}
		return "false"
	case OpVar, OpBoolVar, OpFVar:
		return t.name
	case OpFConst:
		return fmt.Sprintf("((_ to_fp 11 53) %s)", bvLit(64, t.cval))
	}
	return fmt.Sprintf("t%d", t.id)
}

// declare emits declarations for a variable.
func (p *smtPrinter) declVar(t *Term) {
	if p.emitted[t] {
		return
	}
	p.emitted[t] = true
	fmt.Fprintf(p.sb, "(declare-const %s %s)\n", t.name, sortOf(t, p.intEnc))
	if p.intEnc && t.op == OpVar {
		fmt.Fprintf(p.sb, "(assert (and (<= 0 %s) (< %s %s)))\n", t.name, t.name, pow2str(t.w))
	}
}

func (p *smtPrinter) emit(t *Term) {
	if p.emitted[t] {
		return
	}
	switch t.op {
	case OpConst, OpBoolConst, OpFConst:
		return
	case OpVar, OpBoolVar, OpFVar:
		p.declVar(t)
		return
	}
	for _, a := range t.args {
		p.emit(a)
	}
	p.emitted[t] = true
	var e string
	if p.intEnc {
		e = p.exprInt(t)
	} else {
		e = p.exprBV(t)
	}
	if e == "" {
		// not expressible in this encoding: an unconstrained constant of the
		// right sort keeps the transcript well-formed; p.err makes the query
		// that needed it inconclusive
		fmt.Fprintf(p.sb, "(declare-const t%d %s)\n", t.id, sortOf(t, p.intEnc))
		return
	}
	fmt.Fprintf(p.sb, "(define-fun t%d () %s %s)\n", t.id, sortOf(t, p.intEnc), e)
}

func (p *smtPrinter) exprBV(t *Term) string {
	r := func(i int) string { return p.ref(t.args[i]) }
	bin := func(name string) string { return fmt.Sprintf("(%s %s %s)", name, r(0), r(1)) }
	switch t.op {
	case OpNot:
		return fmt.Sprintf("(not %s)", r(0))
	case OpAnd:
		return bin("and")
	case OpOr:
		return bin("or")
	case OpEq:
		return bin("=")
	case OpIte:
		return fmt.Sprintf("(ite %s %s %s)", r(0), r(1), r(2))
	case OpAdd:
		return bin("bvadd")
	case OpSub:
		return bin("bvsub")
	case OpMul:
		return bin("bvmul")
	case OpUDiv:
		return bin("bvudiv")
	case OpURem:
		return bin("bvurem")
	case OpSDiv:
		return bin("bvsdiv")
	case OpSRem:
		return bin("bvsrem")
	case OpBAnd:
		return bin("bvand")
	case OpBOr:
		return bin("bvor")
	case OpBXor:
		return bin("bvxor")
	case OpBNot:
		return fmt.Sprintf("(bvnot %s)", r(0))
	case OpNeg:
		return fmt.Sprintf("(bvneg %s)", r(0))
	case OpShl:
		return bin("bvshl")
	case OpLShr:
		return bin("bvlshr")
	case OpAShr:
		return bin("bvashr")
	case OpUlt:
		return bin("bvult")
	case OpUle:
		return bin("bvule")
	case OpSlt:
		return bin("bvslt")
	case OpSle:
		return bin("bvsle")
	case OpZExt:
		return fmt.Sprintf("((_ zero_extend %d) %s)", t.w-t.args[0].w, r(0))
	case OpSExt:
		return fmt.Sprintf("((_ sign_extend %d) %s)", t.w-t.args[0].w, r(0))
	case OpTrunc:
		return fmt.Sprintf("((_ extract %d 0) %s)", t.w-1, r(0))
	case OpDecLen:
		return declenBV(r(0))
	case OpFAdd:
		return fmt.Sprintf("(fp.add RNE %s %s)", r(0), r(1))
	case OpFSub:
		return fmt.Sprintf("(fp.sub RNE %s %s)", r(0), r(1))
	case OpFMul:
		return fmt.Sprintf("(fp.mul RNE %s %s)", r(0), r(1))
	case OpFDiv:
		return fmt.Sprintf("(fp.div RNE %s %s)", r(0), r(1))
	case OpFNeg:
		return fmt.Sprintf("(fp.neg %s)", r(0))
	case OpFLt:
		return bin("fp.lt")
	case OpFLe:
		return bin("fp.leq")
	case OpFEq:
		return bin("fp.eq")
	case OpFFromS:
		return fmt.Sprintf("((_ to_fp 11 53) RNE %s)", r(0))
	case OpFFromU:
		return fmt.Sprintf("((_ to_fp_unsigned 11 53) RNE %s)", r(0))
	case OpFToS:
		return fmt.Sprintf("((_ fp.to_sbv %d) RTZ %s)", t.w, r(0))
	case OpFIsNaN:
		return fmt.Sprintf("(fp.isNaN %s)", r(0))
	case OpFIsInf:
		return fmt.Sprintf("(fp.isInfinite %s)", r(0))
	case OpFRound:
		mode := [...]string{"RTN", "RTP", "RNA", "RTZ"}[t.cval]
		return fmt.Sprintf("(fp.roundToIntegral %s %s)", mode, r(0))
	}
	p.err = fmt.Errorf("exprBV: unsupported op %d", t.op)
	return ""
}

func declenBV(x string) string {
	// digits of |x| for signed 64-bit x, plus 1 if negative
	var sb strings.Builder
	abs := fmt.Sprintf("(ite (bvslt %s #x0000000000000000) (bvneg %s) %s)", x, x, x)
	sb.WriteString("(let ((ax " + abs + ")) (bvadd (ite (bvslt " + x + " #x0000000000000000) #x0000000000000001 #x0000000000000000) ")
	// nested ite on unsigned thresholds (|MinInt64| = 2^63 works unsigned)
	p := uint64(10)
	n := 0
	for d := 1; d <= 19; d++ {
		fmt.Fprintf(&sb, "(ite (bvult ax %s) %s ", bvLit(64, p), bvLit(64, uint64(d)))
		n++
		if p > math.MaxUint64/10 {
			break
		}
		p *= 10
	}
	sb.WriteString(bvLit(64, 20))
	sb.WriteString(strings.Repeat(")", n))
	sb.WriteString("))")
	return sb.String()
}

// exprInt: wrapped-Int encoding.  BV terms are Ints in [0, 2^w).
func (p *smtPrinter) exprInt(t *Term) string {
	r := func(i int) string { return p.ref(t.args[i]) }
	m := pow2str(t.w)
	sgn := func(i int) string { // signed reading of arg i
		a := t.args[i]
		return fmt.Sprintf("(ite (>= %s %s) (- %s %s) %s)", p.ref(a), pow2str(a.w-1), p.ref(a), pow2str(a.w), p.ref(a))
	}
	switch t.op {
	case OpNot:
		return fmt.Sprintf("(not %s)", r(0))
	case OpAnd:
		return fmt.Sprintf("(and %s %s)", r(0), r(1))
	case OpOr:
		return fmt.Sprintf("(or %s %s)", r(0), r(1))
	case OpEq:
		return fmt.Sprintf("(= %s %s)", r(0), r(1))
	case OpIte:
		return fmt.Sprintf("(ite %s %s %s)", r(0), r(1), r(2))
	case OpAdd:
		return fmt.Sprintf("(mod (+ %s %s) %s)", r(0), r(1), m)
	case OpSub:
		return fmt.Sprintf("(mod (- %s %s) %s)", r(0), r(1), m)
	case OpMul:
		return fmt.Sprintf("(mod (* %s %s) %s)", r(0), r(1), m)
	case OpUDiv:
		return fmt.Sprintf("(ite (= %s 0) %d (div %s %s))", r(1), mask(t.w), r(0), r(1))
	case OpURem:
		return fmt.Sprintf("(ite (= %s 0) %s (mod %s %s))", r(1), r(0), r(0), r(1))
	case OpNeg:
		return fmt.Sprintf("(mod (- %s) %s)", r(0), m)
	case OpBNot:
		return fmt.Sprintf("(- %d %s)", mask(t.w), r(0))
	case OpUlt:
		return fmt.Sprintf("(< %s %s)", r(0), r(1))
	case OpUle:
		return fmt.Sprintf("(<= %s %s)", r(0), r(1))
	case OpSlt:
		return fmt.Sprintf("(< %s %s)", sgn(0), sgn(1))
	case OpSle:
		return fmt.Sprintf("(<= %s %s)", sgn(0), sgn(1))
	case OpZExt:
		return r(0)
	case OpSExt:
		return fmt.Sprintf("(mod %s %s)", sgn(0), m)
	case OpTrunc:
		return fmt.Sprintf("(mod %s %s)", r(0), m)
	case OpSDiv, OpSRem:
		// truncated division on signed readings
		a, b := sgn(0), sgn(1)
		absa := fmt.Sprintf("(abs %s)", a)
		absb := fmt.Sprintf("(abs %s)", b)
		if t.op == OpSDiv {
			q := fmt.Sprintf("(div %s %s)", absa, absb)
			sq := fmt.Sprintf("(ite (= (< %s 0) (< %s 0)) %s (- %s))", a, b, q, q)
			return fmt.Sprintf("(ite (= %s 0) (ite (< %s 0) 1 %d) (mod %s %s))", r(1), a, mask(t.w), sq, m)
		}
		rm := fmt.Sprintf("(mod %s %s)", absa, absb)
		srm := fmt.Sprintf("(ite (< %s 0) (- %s) %s)", a, rm, rm)
		return fmt.Sprintf("(ite (= %s 0) %s (mod %s %s))", r(1), r(0), srm, m)
	case OpBAnd:
		// x & (c-1): exact when c is a power of two (or 0), otherwise an
		// unknown in [0, x] (sound over-approximation; Sat models are
		// re-validated by concrete evaluation of the real terms).
		for i := 0; i < 2; i++ {
			m1 := t.args[i]
			if m1.op == OpSub && m1.args[1].op == OpConst && m1.args[1].cval == 1 {
				c := p.ref(m1.args[0])
				x := r(1 - i)
				p.nUnk++
				unk := fmt.Sprintf("unk%d_%d", t.id, p.nUnk)
				lo := "0"
				if t.args[1-i] == m1.args[0] {
					lo = "1" // x & (x-1) is zero iff x is 0 or a power of two
				}
				fmt.Fprintf(p.sb, "(declare-const %s Int)\n(assert (and (<= %s %s) (<= %s %s)))\n", unk, lo, unk, unk, x)
				p.abstracted = true
				return fmt.Sprintf("(ite (pow2or0 %s) (ite (= %s 0) %s (mod %s %s)) %s)", c, c, x, x, c, unk)
			}
		}
		// x & (2^k-1) and x & 0
		for i := 0; i < 2; i++ {
			c := t.args[i]
			if c.op == OpConst && c.cval&(c.cval+1) == 0 {
				if c.cval == mask(t.w) {
					return r(1 - i)
				}
				return fmt.Sprintf("(mod %s %d)", r(1-i), c.cval+1)
			}
		}
	case OpShl:
		if c := t.args[1]; c.op == OpConst {
			if c.cval >= uint64(t.w) {
				return "0"
			}
			return fmt.Sprintf("(mod (* %s %s) %s)", r(0), pow2str(uint8(c.cval)), m)
		}
	case OpLShr:
		if c := t.args[1]; c.op == OpConst {
			if c.cval >= uint64(t.w) {
				return "0"
			}
			return fmt.Sprintf("(div %s %s)", r(0), pow2str(uint8(c.cval)))
		}
	case OpDecLen:
		// number of bytes of the decimal rendering of the signed 64-bit value
		sx := sgn(0)
		var sb strings.Builder
		fmt.Fprintf(&sb, "(let ((sx %s)) (let ((ax (ite (< sx 0) (- sx) sx))) (+ (ite (< sx 0) 1 0) ", sx)
		pw := "1"
		n := 0
		for d := 1; d <= 19; d++ {
			pw += "0"
			fmt.Fprintf(&sb, "(ite (< ax %s) %d ", pw, d)
			n++
		}
		sb.WriteString("20")
		sb.WriteString(strings.Repeat(")", n))
		sb.WriteString(")))")
		return sb.String()
	}
	p.err = fmt.Errorf("exprInt: unsupported op %d", t.op)
	return ""
}

// isPow2 helper for callers
func isPow2(x uint64) bool { return x != 0 && x&(x-1) == 0 }

var _ = bits.Len64

// collectVars appends variables reachable from t.
func collectVars(t *Term, seen map[*Term]bool, out *[]*Term) {
	if seen[t] {
		return
	}
	seen[t] = true
	switch t.op {
	case OpVar, OpBoolVar, OpFVar:
		*out = append(*out, t)
	}
	for _, a := range t.args {
		collectVars(a, seen, out)
	}
}

// termKey renders a term structurally (for caching uninterpreted results).
func termKey(t *Term) string {
	var sb strings.Builder
	var rec func(t *Term, depth int)
	rec = func(t *Term, depth int) {
		switch t.op {
		case OpConst, OpBoolConst, OpFConst:
			fmt.Fprintf(&sb, "#%d:%d", t.w, t.cval)
			return
		case OpVar, OpBoolVar, OpFVar:
			sb.WriteString(t.name)
			return
		}
		if depth > 40 {
			fmt.Fprintf(&sb, "@%d", t.id)
			return
		}
		fmt.Fprintf(&sb, "(%d/%d/%d", t.op, t.w, t.cval)
		for _, a := range t.args {
			sb.WriteByte(' ')
			rec(a, depth+1)
		}
		sb.WriteByte(')')
	}
	rec(t, 0)
	return sb.String()
}
