// Copyright 2013 The Go Authors. All rights reserved.
// Use of this source code is governed by a BSD-style
// license that can be found in the LICENSE file.

// Package interp is gosymx's symbolic interpreter for go/ssa.
//
// It started as a fork of golang.org/x/tools@v0.29.0/go/ssa/interp (BSD
// licence, see LICENSE.x-tools) and keeps its boxed value representation and
// instruction semantics.  What was added: symbolic scalars (symInt, symBool,
// symFloat, ropes), explicit Go panic sites, an externals table with
// contracts, insertion-ordered maps, unsafe.Pointer round-trips, and the
// path-exploration context (explore.go).
package interp

import (
	"fmt"
	"go/token"
	"go/types"
	"os"
	"runtime"
	"slices"
	"strings"
	"sync"

	"golang.org/x/tools/go/ssa"
)

type continuation int

const (
	kNext continuation = iota
	kReturn
	kJump
)

// Mode is a bitmask of options affecting the interpreter.
type Mode uint

const (
	DisableRecover Mode = 1 << iota
	EnableTracing
)

// State of one interpreter instance (one per worker; never shared).
type interpreter struct {
	prog               *ssa.Program
	globals            map[*ssa.Global]*value
	mode               Mode
	runtimeErrorString types.Type
	sizes              types.Sizes
	px                 *pathCtx
	interpreted        map[string]bool // package paths whose functions are interpreted
	mainPkg            *ssa.Package
	funcIDs            map[value]int
	objSeq             int64
	shared             map[*value]string // cells reachable from package-level variables (footprint mode)
	sharedMaps         map[*omap]string
	loopHeads          map[*ssa.BasicBlock]bool
	loopHeadsDone      map[*ssa.Function]bool
}

// initSet: packages (besides the one under test) whose init is executed.
// errors/strings/bytes/sort inits call into reflectlite or build tables the
// interpreted code never reads through our externals.
var initSet = map[string]bool{
	"golang.org/x/exp/rand": true, "unicode": true, "unicode/utf8": true, "strconv": true, "math/bits": true,
	"bytes": true, "strings": true, "io": true, "bufio": true,
}

// nativeFn is an engine-implemented function value handed to target code.
type nativeFn func(fr *frame, args []value) value

type deferred struct {
	fn    value
	args  []value
	instr *ssa.Defer
	tail  *deferred
}

type frame struct {
	i                *interpreter
	caller           *frame
	fn               *ssa.Function
	block, prevBlock *ssa.BasicBlock
	env              []value
	code             *fnCode
	locals           []value
	defers           *deferred
	result           value
	panicking        bool
	panic            interface{}
	phitemps         []value
	curInstr         ssa.Instruction
	symVisits        map[*ssa.BasicBlock]int
	// loop subsumption bookkeeping
	loopIter map[*ssa.BasicBlock]*loopState
}

func (fr *frame) get(key ssa.Value) value {
	switch key := key.(type) {
	case nil:
		return nil
	case *ssa.Function, *ssa.Builtin:
		return key
	case *ssa.Const:
		return constValue(key)
	case *ssa.Global:
		if r, ok := fr.i.globals[key]; ok {
			return r
		}
	}
	if slot, ok := fr.code.slotOf[key]; ok {
		return fr.env[slot]
	}
	panic(fmt.Sprintf("get: no value for %T: %v", key, key.Name()))
}

// runDefer runs a deferred call d.
func (fr *frame) runDefer(d *deferred) {
	var ok bool
	defer func() {
		if !ok {
			r := recover()
			if pa, isAbort := r.(pathAbort); isAbort {
				panic(pa)
			}
			fr.panicking = true
			fr.panic = r
		}
	}()
	call(fr.i, fr, d.instr.Pos(), d.fn, d.args)
	ok = true
}

func (fr *frame) runDefers() {
	for d := fr.defers; d != nil; d = d.tail {
		fr.runDefer(d)
	}
	fr.defers = nil
	if fr.panicking {
		panic(fr.panic)
	}
}

func lookupMethod(i *interpreter, typ types.Type, meth *types.Func) *ssa.Function {
	return i.prog.LookupMethod(typ, meth.Pkg(), meth.Name())
}

// goPanic raises a Go run-time panic in the target program.
func goPanic(msg string) {
	panic(targetPanic{runtimeError(msg)})
}

// runtimeError is the payload of run-time panics raised by the target.
type runtimeError string

func derefNil(fr *frame) {
	goPanic("runtime error: invalid memory address or nil pointer dereference")
}

func visitInstr(fr *frame, pi *pinstr) continuation {
	switch instr := pi.instr.(type) {
	case *ssa.DebugRef:
		// no-op

	case *ssa.UnOp:
		fr.env[pi.dst] = unop(fr, instr, fr.arg(pi, 0))

	case *ssa.BinOp:
		fr.env[pi.dst] = binop(fr, instr.Op, instr.X.Type(), fr.arg(pi, 0), fr.arg(pi, 1))

	case *ssa.Call:
		fn, args := prepareCall(fr, &instr.Call, pi)
		fr.env[pi.dst] = call(fr.i, fr, instr.Pos(), fn, args)

	case *ssa.ChangeInterface:
		fr.env[pi.dst] = fr.arg(pi, 0)

	case *ssa.ChangeType:
		fr.env[pi.dst] = fr.arg(pi, 0)

	case *ssa.Convert:
		fr.env[pi.dst] = conv(fr, instr.Type(), instr.X.Type(), fr.arg(pi, 0))

	case *ssa.SliceToArrayPointer:
		fr.env[pi.dst] = sliceToArrayPointer(instr.Type(), instr.X.Type(), fr.arg(pi, 0))

	case *ssa.MakeInterface:
		fr.env[pi.dst] = iface{t: instr.X.Type(), v: fr.arg(pi, 0)}

	case *ssa.Extract:
		fr.env[pi.dst] = fr.arg(pi, 0).(tuple)[instr.Index]

	case *ssa.Slice:
		fr.env[pi.dst] = slice(fr, fr.arg(pi, 0), fr.arg(pi, 1), fr.arg(pi, 2), fr.arg(pi, 3))

	case *ssa.Return:
		switch len(instr.Results) {
		case 0:
		case 1:
			fr.result = fr.arg(pi, 0)
		default:
			res := make([]value, len(instr.Results))
			for k := range instr.Results {
				res[k] = fr.arg(pi, k)
			}
			fr.result = tuple(res)
		}
		fr.block = nil
		return kReturn

	case *ssa.RunDefers:
		fr.runDefers()

	case *ssa.Panic:
		panic(targetPanic{fr.arg(pi, 0)})

	case *ssa.Send:
		fr.i.px.abort("unsupported", "channel send")

	case *ssa.Store:
		addr := fr.arg(pi, 0).(*value)
		if addr == nil {
			derefNil(fr)
		}
		if fr.i.shared != nil {
			fr.i.noteSharedWrite(fr, addr)
		}
		store(mustDeref(instr.Addr.Type()), addr, fr.arg(pi, 1))
		if fr.i.shared != nil {
			fr.i.publish(addr)
		}

	case *ssa.If:
		succ := 1
		switch c := fr.arg(pi, 0).(type) {
		case bool:
			if c {
				succ = 0
			}
		case symBool:
			fr.noteSymBranch()
			if SlowLog || ForkLog {
				pos := fr.fn.Prog.Fset.Position(instr.Pos())
				if ForkLog && !fr.i.px.replaying() {
					fmt.Fprintf(os.Stderr, "FORK if %s:%d in %s decisions=%v\n", shortFile(pos.Filename), pos.Line, fr.fn, fr.i.px.decisions)
				}
				fr.i.px.curLabel = fmt.Sprintf("if %s:%d", shortFile(pos.Filename), pos.Line)
			}
			if fr.i.px.forkBool(c.t) {
				succ = 0
			}
		default:
			panic(fmt.Sprintf("If on %T", c))
		}
		fr.prevBlock, fr.block = fr.block, fr.block.Succs[succ]
		return kJump

	case *ssa.Jump:
		fr.prevBlock, fr.block = fr.block, fr.block.Succs[0]
		return kJump

	case *ssa.Defer:
		fn, args := prepareCall(fr, &instr.Call, pi)
		defers := &fr.defers
		if into := fr.get(instr.DeferStack); into != nil {
			defers = into.(**deferred)
		}
		*defers = &deferred{
			fn:    fn,
			args:  args,
			instr: instr,
			tail:  *defers,
		}

	case *ssa.Go:
		fr.i.px.abort("unsupported", "go statement")

	case *ssa.MakeChan:
		fr.i.px.abort("unsupported", "make(chan)")

	case *ssa.Alloc:
		var addr *value
		if instr.Heap {
			addr = new(value)
			fr.env[pi.dst] = addr
		} else {
			addr = fr.env[pi.dst].(*value)
		}
		*addr = zero(mustDeref(instr.Type()))

	case *ssa.MakeSlice:
		ln := fr.concretizeLen(fr.arg(pi, 0), "makeslice: len out of range")
		cp := fr.concretizeLen(fr.arg(pi, 1), "makeslice: cap out of range")
		if ln < 0 || ln > maxAlloc {
			goPanic("runtime error: makeslice: len out of range")
		}
		if cp < ln || cp > maxAlloc {
			goPanic("runtime error: makeslice: cap out of range")
		}
		fr.i.px.workUnits += cp
		slice := make([]value, cp)
		tElt := instr.Type().Underlying().(*types.Slice).Elem()
		for i := range slice {
			slice[i] = zero(tElt)
		}
		fr.env[pi.dst] = slice[:ln]

	case *ssa.MakeMap:
		var reserve int64
		if instr.Reserve != nil {
			reserve = fr.concretizeLen(fr.get(instr.Reserve), "makemap: size out of range")
		}
		if reserve < 0 {
			goPanic("runtime error: makemap: size out of range")
		}
		fr.env[pi.dst] = makeMap(instr.Type().Underlying().(*types.Map).Key(), 0)

	case *ssa.Range:
		fr.env[pi.dst] = rangeIter(fr, fr.arg(pi, 0), instr.X.Type())

	case *ssa.Next:
		fr.env[pi.dst] = fr.arg(pi, 0).(iter).next()

	case *ssa.FieldAddr:
		p := fr.arg(pi, 0).(*value)
		if p == nil {
			derefNil(fr)
		}
		fr.env[pi.dst] = &(*p).(structure)[instr.Field]

	case *ssa.Field:
		fr.env[pi.dst] = fr.arg(pi, 0).(structure)[instr.Field]

	case *ssa.IndexAddr:
		x := fr.arg(pi, 0)
		idx := fr.arg(pi, 1)
		switch x := x.(type) {
		case []value:
			i := fr.concretizeIndex(idx, len(x))
			fr.env[pi.dst] = &x[i]
		case *value: // *array
			if x == nil {
				derefNil(fr)
			}
			a := (*x).(array)
			i := fr.concretizeIndex(idx, len(a))
			fr.env[pi.dst] = &a[i]
		default:
			panic(fmt.Sprintf("unexpected x type in IndexAddr: %T", x))
		}

	case *ssa.Index:
		x := fr.arg(pi, 0)
		idx := fr.arg(pi, 1)
		switch x := x.(type) {
		case array:
			fr.env[pi.dst] = x[fr.concretizeIndex(idx, len(x))]
		case string:
			fr.env[pi.dst] = x[fr.concretizeIndex(idx, len(x))]
		case *rope:
			fr.env[pi.dst] = x.index(fr, idx)
		default:
			panic(fmt.Sprintf("unexpected x type in Index: %T", x))
		}

	case *ssa.Lookup:
		fr.env[pi.dst] = lookup(fr, instr, fr.arg(pi, 0), fr.arg(pi, 1))

	case *ssa.MapUpdate:
		m := fr.arg(pi, 0).(*omap)
		if m == nil {
			goPanic("assignment to entry in nil map")
		}
		if fr.i.shared != nil {
			fr.i.noteSharedMapWrite(fr, m)
		}
		key := fr.mapKey(fr.arg(pi, 1))
		v := fr.arg(pi, 2)
		m.insertSym(fr, key, v)
		if fr.i.shared != nil {
			if name, ok := fr.i.sharedMaps[m]; ok {
				fr.i.walkShared(key, name, 1)
				fr.i.walkShared(v, name, 1)
			}
		}

	case *ssa.TypeAssert:
		fr.env[pi.dst] = typeAssert(fr.i, instr, fr.arg(pi, 0).(iface))

	case *ssa.MakeClosure:
		bindings := make([]value, len(instr.Bindings))
		for k := range instr.Bindings {
			bindings[k] = fr.arg(pi, k)
		}
		fr.env[pi.dst] = &closure{instr.Fn.(*ssa.Function), bindings}

	case *ssa.Phi:
		panic("unreachable: phi")

	case *ssa.Select:
		fr.i.px.abort("unsupported", "select")

	default:
		panic(fmt.Sprintf("unexpected instruction: %T", instr))
	}
	return kNext
}

const maxAlloc = 1 << 26

// prepareCall determines the function value and argument values for a call.
// Operand layout (see compileInstr): ops[0] = call.Value, ops[1:] = call.Args.
func prepareCall(fr *frame, call *ssa.CallCommon, pi *pinstr) (fn value, args []value) {
	v := fr.arg(pi, 0)
	if call.Method == nil {
		fn = v
		args = make([]value, len(call.Args))
		for k := range call.Args {
			args[k] = fr.arg(pi, 1+k)
		}
		return
	}
	recv := v.(iface)
	if recv.t == nil {
		derefNil(fr)
	}
	f := lookupMethod(fr.i, recv.t, call.Method)
	if f == nil {
		panic(fmt.Sprintf("method set for dynamic type %v does not contain %s", recv.t, call.Method))
	}
	fn = f
	args = make([]value, 1+len(call.Args))
	args[0] = recv.v
	for k := range call.Args {
		args[1+k] = fr.arg(pi, 1+k)
	}
	return
}

func call(i *interpreter, caller *frame, callpos token.Pos, fn value, args []value) value {
	switch fn := fn.(type) {
	case *ssa.Function:
		if fn == nil {
			derefNil(caller)
		}
		return callSSA(i, caller, callpos, fn, args, nil)
	case *closure:
		return callSSA(i, caller, callpos, fn.Fn, args, fn.Env)
	case *ssa.Builtin:
		return callBuiltin(caller, callpos, fn, args)
	case nativeFn:
		return fn(caller, args)
	}
	panic(fmt.Sprintf("cannot call %T", fn))
}

func pkgPathOf(fn *ssa.Function) string {
	if fn.Pkg != nil {
		return fn.Pkg.Pkg.Path()
	}
	// wrappers, bound methods, instantiations: find origin
	if o := fn.Origin(); o != nil && o.Pkg != nil {
		return o.Pkg.Pkg.Path()
	}
	if fn.Object() != nil && fn.Object().Pkg() != nil {
		return fn.Object().Pkg().Path()
	}
	if fn.Parent() != nil {
		return pkgPathOf(fn.Parent())
	}
	return ""
}

func callSSA(i *interpreter, caller *frame, callpos token.Pos, fn *ssa.Function, args []value, env []value) value {
	px := i.px
	fr := &frame{
		i:      i,
		caller: caller,
		fn:     fn,
	}
	meta := fnMetaOf(fn)
	if fn.Parent() == nil {
		name := meta.name
		if ext := meta.ext; ext != nil {
			return ext(fr, args)
		}
		if fn.Pkg != nil && fn.Name() == "init" && fn == fn.Pkg.Func("init") && !initSet[fn.Pkg.Pkg.Path()] && fn.Pkg != i.mainPkg {
			return nil
		}
		if px.ex != nil && px.ex.Cfg.Summaries != nil && fn.Pkg == i.mainPkg {
			if sm := px.ex.Cfg.Summaries[fn.Name()]; sm != "" {
				if f := summaries[sm]; f != nil {
					if r, ok := f(fr, fn, args); ok {
						return r
					}
				}
			}
		}
		if px.ex != nil && px.ex.Cfg.Overrides != nil && px.ex.Cfg.Overrides[name] {
			return havocCall(fr, fn, args)
		}
		if fn.Synthetic == "" || fn.Pkg != nil {
			pp := meta.pkgPath
			if pp != "" && !i.interpreted[pp] {
				px.abort("missing-external", "%s", name)
			}
		}
		if fn.Blocks == nil {
			px.abort("missing-external", "no code for %s", name)
		}
	}
	if fn.TypeParams().Len() > 0 && len(fn.TypeArgs()) == 0 {
		panic("interp requires InstantiateGenerics")
	}
	px.depth++
	if px.depth > px.maxDepth() {
		px.depth--
		if px.ex != nil && px.ex.Cfg.DepthIsViolation {
			px.violation("panic", "fatal error: stack overflow (unbounded recursion)", fmt.Sprintf("call depth %d exceeded in %s", px.maxDepth(), fn), caller, nil)
			px.abort("panic", "unbounded recursion in %s", fn)
		}
		px.abort("depth", "call depth %d exceeded in %s", px.maxDepth(), fn)
	}
	prevTop := px.top
	px.top = fr
	defer func() { px.depth--; px.top = prevTop }()
	if px.funcs != nil && meta.report {
		px.funcs[meta.name] = true
	}

	code := meta.code
	if code == nil {
		px.abort("engine", "no compiled code for %s", fn)
	}
	fr.code = code
	fr.env = make([]value, code.nslots)
	fr.block = fn.Blocks[0]
	fr.locals = make([]value, len(fn.Locals))
	for i, l := range fn.Locals {
		fr.locals[i] = zero(mustDeref(l.Type()))
		fr.env[code.slotOf[l]] = &fr.locals[i]
	}
	for i := range fn.Params {
		fr.env[code.paramSlot[i]] = args[i]
	}
	for i := range fn.FreeVars {
		fr.env[code.freeSlot[i]] = env[i]
	}
	for fr.block != nil {
		runFrame(fr)
	}
	return fr.result
}

var ForkLog = os.Getenv("VCHECK_FORKLOG") != ""

type fnMeta struct {
	code    *fnCode
	name    string
	ext     externalFn
	pkgPath string
	report  bool
}

var fnMetaCache sync.Map

func fnMetaOf(fn *ssa.Function) *fnMeta {
	if m, ok := fnMetaCache.Load(fn); ok {
		return m.(*fnMeta)
	}
	m := &fnMeta{name: fn.String(), pkgPath: pkgPathOf(fn)}
	m.ext = externals[m.name]
	if m.ext == nil && strings.Contains(m.name, "[") {
		m.ext = genericExternal(m.name)
	}
	m.report = strings.HasPrefix(m.pkgPath, "github.com/sealdice/dicescript") || strings.HasSuffix(m.pkgPath, "x/exp/rand")
	if fn.Blocks != nil && m.ext == nil {
		m.code = compileFn(fn)
	}
	act, _ := fnMetaCache.LoadOrStore(fn, m)
	return act.(*fnMeta)
}

func (px *pathCtx) maxDepth() int {
	if px.ex != nil && px.ex.Cfg.MaxDepth > 0 {
		return px.ex.Cfg.MaxDepth
	}
	return 2000
}

func runFrame(fr *frame) {
	defer func() {
		if fr.block == nil {
			return // normal return
		}
		r := recover()
		if pa, ok := r.(pathAbort); ok {
			panic(pa)
		}
		if re, ok := r.(runtime.Error); ok {
			// A Go run-time error inside the engine itself: never a verdict.
			buf := make([]byte, 4096)
			buf = buf[:runtime.Stack(buf, false)]
			panic(pathAbort{"engine", fmt.Sprintf("%v in %s\n%s", re, fr.fn, buf)})
		}
		if s, ok := r.(string); ok && !strings.HasPrefix(s, "interface conversion:") {
			panic(pathAbort{"engine", fmt.Sprintf("%s in %s", s, fr.fn)})
		}
		if _, ok := r.(targetPanic); ok && fr.i.px.panicStack == nil {
			fr.i.px.panicWhere, fr.i.px.panicStack = stackOf(fr)
		}
		fr.panicking = true
		fr.panic = r
		fr.runDefers()
		fr.block = fr.fn.Recover
	}()

	px := fr.i.px
	maxSteps := px.maxSteps()
	for {
		bc := &fr.code.blocks[fr.block.Index]
		executePhis(fr, bc)
		if bc.loopHead {
			fr.loopArrive()
		}
		body := bc.instrs[bc.firstNonPhi:]
		for k := range body {
			pi := &body[k]
			fr.curInstr = pi.instr
			px.steps++
			if px.steps > maxSteps {
				px.hang(fr)
			}
			if fr.loopIter != nil {
				fr.markImpure(pi.instr)
			}
			if visitInstr(fr, pi) == kReturn {
				return
			}
		}
	}
}

func (px *pathCtx) maxSteps() int64 {
	if px.ex != nil && px.ex.Cfg.MaxSteps > 0 {
		return px.ex.Cfg.MaxSteps
	}
	return 50_000_000
}

func (px *pathCtx) hang(fr *frame) {
	if px.ex != nil && px.ex.Cfg.HangIsViolation {
		px.violation("hang", "evaluation-does-not-terminate", fmt.Sprintf("no result after %d interpreter steps", px.maxSteps()), fr, nil)
		px.abort("hang", "step limit %d exceeded in %s", px.maxSteps(), fr.fn)
	}
	px.abort("steps", "step limit %d exceeded in %s", px.maxSteps(), fr.fn)
}

func executePhis(fr *frame, bc *blockCode) {
	if bc.firstNonPhi == 0 {
		return
	}
	predIndex := slices.Index(fr.block.Preds, fr.prevBlock)
	fr.phitemps = fr.phitemps[:0]
	for k := 0; k < bc.firstNonPhi; k++ {
		fr.phitemps = append(fr.phitemps, fr.arg(&bc.instrs[k], predIndex))
	}
	for k := 0; k < bc.firstNonPhi; k++ {
		fr.env[bc.instrs[k].dst] = fr.phitemps[k]
	}
}

// doRecover implements the recover() built-in.
func doRecover(caller *frame) value {
	if caller.i.mode&DisableRecover == 0 &&
		caller != nil && !caller.panicking &&
		caller.caller != nil && caller.caller.panicking {
		caller.caller.panicking = false
		caller.i.px.panicStack = nil
		p := caller.caller.panic
		caller.caller.panic = nil
		switch p := p.(type) {
		case targetPanic:
			if re, ok := p.v.(runtimeError); ok {
				return iface{caller.i.runtimeErrorString, string(re)}
			}
			return p.v
		case string:
			return iface{caller.i.runtimeErrorString, p}
		case pathAbort:
			panic(p)
		default:
			panic(fmt.Sprintf("unexpected panic type %T in target call to recover()", p))
		}
	}
	return iface{}
}

// ---------------------------------------------------------------------
// Machine: one interpreter instance bound to a program.

type Machine struct {
	i *interpreter
}

// Program bundles the SSA program and the package under test.
type Program struct {
	Prog        *ssa.Program
	Main        *ssa.Package
	Sizes       types.Sizes
	Interpreted map[string]bool
	InitPkgs    []string // packages whose init runs, in order
}

func newInterp(p *Program) *interpreter {
	i := &interpreter{
		prog:        p.Prog,
		globals:     make(map[*ssa.Global]*value),
		sizes:       p.Sizes,
		interpreted: p.Interpreted,
		mainPkg:     p.Main,
		funcIDs:     map[value]int{},
	}
	runtimePkg := i.prog.ImportedPackage("runtime")
	if runtimePkg != nil {
		i.runtimeErrorString = runtimePkg.Type("errorString").Object().Type()
	}
	for _, pkg := range i.prog.AllPackages() {
		if !p.Interpreted[pkg.Pkg.Path()] {
			continue
		}
		for _, m := range pkg.Members {
			if v, ok := m.(*ssa.Global); ok {
				cell := zero(mustDeref(v.Type()))
				i.globals[v] = &cell
			}
		}
	}
	return i
}

// runInit executes the package initialisers (the main package's init calls
// its dependencies' inits; those of non-interpreted packages are skipped).
func (i *interpreter) runInit(p *Program) {
	call(i, nil, token.NoPos, p.Main.Func("init"), nil)
}

func debugf(format string, args ...interface{}) {
	fmt.Fprintf(os.Stderr, format, args...)
}
