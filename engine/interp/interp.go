// Copyright 2013 The Go Authors. All rights reserved.
// Use of this source code is governed by a BSD-style
// license that can be found in the LICENSE file.

// Package interp is gosymx's symbolic interpreter for go/ssa.
//
// It started as a fork of golang.org/x/tools@v0.29.0/go/ssa/interp (BSD
// licence, see LICENSE.x-tools) and keeps its boxed value representation and
// instruction semantics.  What was added: symbolic scalars (symInt, symBool,
// symFloat, ropes), explicit Go panic sites, an externals table with
// contracts, insertion-ordered maps, unsafe.Pointer round-trips, and the
// path-exploration context (explore.go).
package interp

import (
	"fmt"
	"go/token"
	"go/types"
	"os"
	"runtime"
	"slices"
	"strings"
	"sync"

	"golang.org/x/tools/go/ssa"
)

type continuation int

const (
	kNext continuation = iota
	kReturn
	kJump
)

// Mode is a bitmask of options affecting the interpreter.
type Mode uint

const (
	DisableRecover Mode = 1 << iota
	EnableTracing
)

// State of one interpreter instance (one per worker; never shared).
type interpreter struct {
	prog               *ssa.Program
	globals            map[*ssa.Global]*value
	mode               Mode
	runtimeErrorString types.Type
	sizes              types.Sizes
	px                 *pathCtx
	interpreted        map[string]bool // package paths whose functions are interpreted
	mainPkg            *ssa.Package
	funcIDs            map[value]int
	objSeq             int64
	loopHeads          map[*ssa.BasicBlock]bool
	loopHeadsDone      map[*ssa.Function]bool
}

// initSet: packages (besides the one under test) whose init is executed.
// errors/strings/bytes/sort inits call into reflectlite or build tables the
// interpreted code never reads through our externals.
var initSet = map[string]bool{
	"golang.org/x/exp/rand": true, "unicode": true, "unicode/utf8": true, "strconv": true, "math/bits": true,
}

type deferred struct {
	fn    value
	args  []value
	instr *ssa.Defer
	tail  *deferred
}

type frame struct {
	i                *interpreter
	caller           *frame
	fn               *ssa.Function
	block, prevBlock *ssa.BasicBlock
	env              map[ssa.Value]value
	locals           []value
	defers           *deferred
	result           value
	panicking        bool
	panic            interface{}
	phitemps         []value
	curInstr         ssa.Instruction
	symVisits        map[*ssa.BasicBlock]int
	// loop subsumption bookkeeping
	loopIter map[*ssa.BasicBlock]*loopState
}

func (fr *frame) get(key ssa.Value) value {
	switch key := key.(type) {
	case nil:
		return nil
	case *ssa.Function, *ssa.Builtin:
		return key
	case *ssa.Const:
		return constValue(key)
	case *ssa.Global:
		if r, ok := fr.i.globals[key]; ok {
			return r
		}
	}
	if r, ok := fr.env[key]; ok {
		return r
	}
	panic(fmt.Sprintf("get: no value for %T: %v", key, key.Name()))
}

// runDefer runs a deferred call d.
func (fr *frame) runDefer(d *deferred) {
	var ok bool
	defer func() {
		if !ok {
			r := recover()
			if pa, isAbort := r.(pathAbort); isAbort {
				panic(pa)
			}
			fr.panicking = true
			fr.panic = r
		}
	}()
	call(fr.i, fr, d.instr.Pos(), d.fn, d.args)
	ok = true
}

func (fr *frame) runDefers() {
	for d := fr.defers; d != nil; d = d.tail {
		fr.runDefer(d)
	}
	fr.defers = nil
	if fr.panicking {
		panic(fr.panic)
	}
}

func lookupMethod(i *interpreter, typ types.Type, meth *types.Func) *ssa.Function {
	return i.prog.LookupMethod(typ, meth.Pkg(), meth.Name())
}

// goPanic raises a Go run-time panic in the target program.
func goPanic(msg string) {
	panic(targetPanic{runtimeError(msg)})
}

// runtimeError is the payload of run-time panics raised by the target.
type runtimeError string

func derefNil(fr *frame) {
	goPanic("runtime error: invalid memory address or nil pointer dereference")
}

func visitInstr(fr *frame, instr ssa.Instruction) continuation {
	switch instr := instr.(type) {
	case *ssa.DebugRef:
		// no-op

	case *ssa.UnOp:
		fr.env[instr] = unop(fr, instr, fr.get(instr.X))

	case *ssa.BinOp:
		fr.env[instr] = binop(fr, instr.Op, instr.X.Type(), fr.get(instr.X), fr.get(instr.Y))

	case *ssa.Call:
		fn, args := prepareCall(fr, &instr.Call)
		fr.env[instr] = call(fr.i, fr, instr.Pos(), fn, args)

	case *ssa.ChangeInterface:
		fr.env[instr] = fr.get(instr.X)

	case *ssa.ChangeType:
		fr.env[instr] = fr.get(instr.X)

	case *ssa.Convert:
		fr.env[instr] = conv(fr, instr.Type(), instr.X.Type(), fr.get(instr.X))

	case *ssa.SliceToArrayPointer:
		fr.env[instr] = sliceToArrayPointer(instr.Type(), instr.X.Type(), fr.get(instr.X))

	case *ssa.MakeInterface:
		fr.env[instr] = iface{t: instr.X.Type(), v: fr.get(instr.X)}

	case *ssa.Extract:
		fr.env[instr] = fr.get(instr.Tuple).(tuple)[instr.Index]

	case *ssa.Slice:
		fr.env[instr] = slice(fr, fr.get(instr.X), fr.get(instr.Low), fr.get(instr.High), fr.get(instr.Max))

	case *ssa.Return:
		switch len(instr.Results) {
		case 0:
		case 1:
			fr.result = fr.get(instr.Results[0])
		default:
			var res []value
			for _, r := range instr.Results {
				res = append(res, fr.get(r))
			}
			fr.result = tuple(res)
		}
		fr.block = nil
		return kReturn

	case *ssa.RunDefers:
		fr.runDefers()

	case *ssa.Panic:
		panic(targetPanic{fr.get(instr.X)})

	case *ssa.Send:
		fr.i.px.abort("unsupported", "channel send")

	case *ssa.Store:
		addr := fr.get(instr.Addr).(*value)
		if addr == nil {
			derefNil(fr)
		}
		store(mustDeref(instr.Addr.Type()), addr, fr.get(instr.Val))

	case *ssa.If:
		succ := 1
		switch c := fr.get(instr.Cond).(type) {
		case bool:
			if c {
				succ = 0
			}
		case symBool:
			fr.noteSymBranch()
			if SlowLog || ForkLog {
				pos := fr.fn.Prog.Fset.Position(instr.Pos())
				if ForkLog && !fr.i.px.replaying() {
					fmt.Fprintf(os.Stderr, "FORK if %s:%d in %s decisions=%v\n", shortFile(pos.Filename), pos.Line, fr.fn, fr.i.px.decisions)
				}
				fr.i.px.curLabel = fmt.Sprintf("if %s:%d", shortFile(pos.Filename), pos.Line)
			}
			if fr.i.px.forkBool(c.t) {
				succ = 0
			}
		default:
			panic(fmt.Sprintf("If on %T", c))
		}
		fr.prevBlock, fr.block = fr.block, fr.block.Succs[succ]
		return kJump

	case *ssa.Jump:
		fr.prevBlock, fr.block = fr.block, fr.block.Succs[0]
		return kJump

	case *ssa.Defer:
		fn, args := prepareCall(fr, &instr.Call)
		defers := &fr.defers
		if into := fr.get(instr.DeferStack); into != nil {
			defers = into.(**deferred)
		}
		*defers = &deferred{
			fn:    fn,
			args:  args,
			instr: instr,
			tail:  *defers,
		}

	case *ssa.Go:
		fr.i.px.abort("unsupported", "go statement")

	case *ssa.MakeChan:
		fr.i.px.abort("unsupported", "make(chan)")

	case *ssa.Alloc:
		var addr *value
		if instr.Heap {
			addr = new(value)
			fr.env[instr] = addr
		} else {
			addr = fr.env[instr].(*value)
		}
		*addr = zero(mustDeref(instr.Type()))

	case *ssa.MakeSlice:
		ln := fr.concretizeLen(fr.get(instr.Len), "makeslice: len out of range")
		cp := fr.concretizeLen(fr.get(instr.Cap), "makeslice: cap out of range")
		if ln < 0 || ln > maxAlloc {
			goPanic("runtime error: makeslice: len out of range")
		}
		if cp < ln || cp > maxAlloc {
			goPanic("runtime error: makeslice: cap out of range")
		}
		fr.i.px.workUnits += cp
		slice := make([]value, cp)
		tElt := instr.Type().Underlying().(*types.Slice).Elem()
		for i := range slice {
			slice[i] = zero(tElt)
		}
		fr.env[instr] = slice[:ln]

	case *ssa.MakeMap:
		var reserve int64
		if instr.Reserve != nil {
			reserve = fr.concretizeLen(fr.get(instr.Reserve), "makemap: size out of range")
		}
		if reserve < 0 {
			goPanic("runtime error: makemap: size out of range")
		}
		fr.env[instr] = makeMap(instr.Type().Underlying().(*types.Map).Key(), 0)

	case *ssa.Range:
		fr.env[instr] = rangeIter(fr, fr.get(instr.X), instr.X.Type())

	case *ssa.Next:
		fr.env[instr] = fr.get(instr.Iter).(iter).next()

	case *ssa.FieldAddr:
		p := fr.get(instr.X).(*value)
		if p == nil {
			derefNil(fr)
		}
		fr.env[instr] = &(*p).(structure)[instr.Field]

	case *ssa.Field:
		fr.env[instr] = fr.get(instr.X).(structure)[instr.Field]

	case *ssa.IndexAddr:
		x := fr.get(instr.X)
		idx := fr.get(instr.Index)
		switch x := x.(type) {
		case []value:
			i := fr.concretizeIndex(idx, len(x))
			fr.env[instr] = &x[i]
		case *value: // *array
			if x == nil {
				derefNil(fr)
			}
			a := (*x).(array)
			i := fr.concretizeIndex(idx, len(a))
			fr.env[instr] = &a[i]
		default:
			panic(fmt.Sprintf("unexpected x type in IndexAddr: %T", x))
		}

	case *ssa.Index:
		x := fr.get(instr.X)
		idx := fr.get(instr.Index)
		switch x := x.(type) {
		case array:
			fr.env[instr] = x[fr.concretizeIndex(idx, len(x))]
		case string:
			fr.env[instr] = x[fr.concretizeIndex(idx, len(x))]
		case *rope:
			fr.env[instr] = x.index(fr, idx)
		default:
			panic(fmt.Sprintf("unexpected x type in Index: %T", x))
		}

	case *ssa.Lookup:
		fr.env[instr] = lookup(fr, instr, fr.get(instr.X), fr.get(instr.Index))

	case *ssa.MapUpdate:
		m := fr.get(instr.Map).(*omap)
		if m == nil {
			goPanic("assignment to entry in nil map")
		}
		key := fr.mapKey(fr.get(instr.Key))
		v := fr.get(instr.Value)
		m.insertSym(fr, key, v)

	case *ssa.TypeAssert:
		fr.env[instr] = typeAssert(fr.i, instr, fr.get(instr.X).(iface))

	case *ssa.MakeClosure:
		var bindings []value
		for _, binding := range instr.Bindings {
			bindings = append(bindings, fr.get(binding))
		}
		fr.env[instr] = &closure{instr.Fn.(*ssa.Function), bindings}

	case *ssa.Phi:
		panic("unreachable: phi")

	case *ssa.Select:
		fr.i.px.abort("unsupported", "select")

	default:
		panic(fmt.Sprintf("unexpected instruction: %T", instr))
	}
	return kNext
}

const maxAlloc = 1 << 26

// prepareCall determines the function value and argument values for a call.
func prepareCall(fr *frame, call *ssa.CallCommon) (fn value, args []value) {
	v := fr.get(call.Value)
	if call.Method == nil {
		fn = v
	} else {
		recv := v.(iface)
		if recv.t == nil {
			derefNil(fr)
		}
		if f := lookupMethod(fr.i, recv.t, call.Method); f == nil {
			panic(fmt.Sprintf("method set for dynamic type %v does not contain %s", recv.t, call.Method))
		} else {
			fn = f
		}
		args = append(args, recv.v)
	}
	for _, arg := range call.Args {
		args = append(args, fr.get(arg))
	}
	return
}

func call(i *interpreter, caller *frame, callpos token.Pos, fn value, args []value) value {
	switch fn := fn.(type) {
	case *ssa.Function:
		if fn == nil {
			derefNil(caller)
		}
		return callSSA(i, caller, callpos, fn, args, nil)
	case *closure:
		return callSSA(i, caller, callpos, fn.Fn, args, fn.Env)
	case *ssa.Builtin:
		return callBuiltin(caller, callpos, fn, args)
	}
	panic(fmt.Sprintf("cannot call %T", fn))
}

func pkgPathOf(fn *ssa.Function) string {
	if fn.Pkg != nil {
		return fn.Pkg.Pkg.Path()
	}
	// wrappers, bound methods, instantiations: find origin
	if o := fn.Origin(); o != nil && o.Pkg != nil {
		return o.Pkg.Pkg.Path()
	}
	if fn.Object() != nil && fn.Object().Pkg() != nil {
		return fn.Object().Pkg().Path()
	}
	if fn.Parent() != nil {
		return pkgPathOf(fn.Parent())
	}
	return ""
}

func callSSA(i *interpreter, caller *frame, callpos token.Pos, fn *ssa.Function, args []value, env []value) value {
	px := i.px
	fr := &frame{
		i:      i,
		caller: caller,
		fn:     fn,
	}
	meta := fnMetaOf(fn)
	if fn.Parent() == nil {
		name := meta.name
		if ext := meta.ext; ext != nil {
			return ext(fr, args)
		}
		if fn.Pkg != nil && fn.Name() == "init" && fn == fn.Pkg.Func("init") && !initSet[fn.Pkg.Pkg.Path()] && fn.Pkg != i.mainPkg {
			return nil
		}
		if px.ex != nil && px.ex.Cfg.Summaries != nil && fn.Pkg == i.mainPkg {
			if sm := px.ex.Cfg.Summaries[fn.Name()]; sm != "" {
				if f := summaries[sm]; f != nil {
					if r, ok := f(fr, fn, args); ok {
						return r
					}
				}
			}
		}
		if px.ex != nil && px.ex.Cfg.Overrides != nil && px.ex.Cfg.Overrides[name] {
			return havocCall(fr, fn, args)
		}
		if fn.Synthetic == "" || fn.Pkg != nil {
			pp := meta.pkgPath
			if pp != "" && !i.interpreted[pp] {
				px.abort("missing-external", "%s", name)
			}
		}
		if fn.Blocks == nil {
			px.abort("missing-external", "no code for %s", name)
		}
	}
	if fn.TypeParams().Len() > 0 && len(fn.TypeArgs()) == 0 {
		panic("interp requires InstantiateGenerics")
	}
	px.depth++
	if px.depth > px.maxDepth() {
		px.depth--
		px.abort("depth", "call depth %d exceeded in %s", px.maxDepth(), fn)
	}
	defer func() { px.depth-- }()
	if px.funcs != nil && meta.report {
		px.funcs[meta.name] = true
	}

	fr.env = make(map[ssa.Value]value, len(fn.Params)+len(fn.FreeVars)+8)
	fr.block = fn.Blocks[0]
	fr.locals = make([]value, len(fn.Locals))
	for i, l := range fn.Locals {
		fr.locals[i] = zero(mustDeref(l.Type()))
		fr.env[l] = &fr.locals[i]
	}
	for i, p := range fn.Params {
		fr.env[p] = args[i]
	}
	for i, fv := range fn.FreeVars {
		fr.env[fv] = env[i]
	}
	for fr.block != nil {
		runFrame(fr)
	}
	return fr.result
}

var ForkLog = os.Getenv("VCHECK_FORKLOG") != ""

type fnMeta struct {
	name    string
	ext     externalFn
	pkgPath string
	report  bool
}

var fnMetaCache sync.Map

func fnMetaOf(fn *ssa.Function) *fnMeta {
	if m, ok := fnMetaCache.Load(fn); ok {
		return m.(*fnMeta)
	}
	m := &fnMeta{name: fn.String(), pkgPath: pkgPathOf(fn)}
	m.ext = externals[m.name]
	m.report = strings.HasPrefix(m.pkgPath, "github.com/sealdice/dicescript") || strings.HasSuffix(m.pkgPath, "x/exp/rand")
	fnMetaCache.Store(fn, m)
	return m
}

func (px *pathCtx) maxDepth() int {
	if px.ex != nil && px.ex.Cfg.MaxDepth > 0 {
		return px.ex.Cfg.MaxDepth
	}
	return 2000
}

func runFrame(fr *frame) {
	defer func() {
		if fr.block == nil {
			return // normal return
		}
		r := recover()
		if pa, ok := r.(pathAbort); ok {
			panic(pa)
		}
		if re, ok := r.(runtime.Error); ok {
			// A Go run-time error inside the engine itself: never a verdict.
			buf := make([]byte, 4096)
			buf = buf[:runtime.Stack(buf, false)]
			panic(pathAbort{"engine", fmt.Sprintf("%v in %s\n%s", re, fr.fn, buf)})
		}
		if s, ok := r.(string); ok && !strings.HasPrefix(s, "interface conversion:") {
			panic(pathAbort{"engine", fmt.Sprintf("%s in %s", s, fr.fn)})
		}
		if _, ok := r.(targetPanic); ok && fr.i.px.panicStack == nil {
			fr.i.px.panicWhere, fr.i.px.panicStack = stackOf(fr)
		}
		fr.panicking = true
		fr.panic = r
		fr.runDefers()
		fr.block = fr.fn.Recover
	}()

	px := fr.i.px
	for {
		nonPhis := executePhis(fr)
		if fr.i.isLoopHead(fr.block) {
			fr.loopArrive()
		}
		for _, instr := range nonPhis {
			fr.curInstr = instr
			px.steps++
			if px.steps > px.maxSteps() {
				px.hang(fr)
			}
			if fr.loopIter != nil {
				fr.markImpure(instr)
			}
			if visitInstr(fr, instr) == kReturn {
				return
			}
		}
	}
}

func (px *pathCtx) maxSteps() int64 {
	if px.ex != nil && px.ex.Cfg.MaxSteps > 0 {
		return px.ex.Cfg.MaxSteps
	}
	return 50_000_000
}

func (px *pathCtx) hang(fr *frame) {
	px.abort("steps", "step limit %d exceeded in %s", px.maxSteps(), fr.fn)
}

func executePhis(fr *frame) []ssa.Instruction {
	firstNonPhi := -1
	for i, instr := range fr.block.Instrs {
		if _, ok := instr.(*ssa.Phi); !ok {
			firstNonPhi = i
			break
		}
	}
	nonPhis := fr.block.Instrs[firstNonPhi:]
	if firstNonPhi > 0 {
		phis := fr.block.Instrs[:firstNonPhi]
		predIndex := slices.Index(fr.block.Preds, fr.prevBlock)
		fr.phitemps = fr.phitemps[:0]
		for _, phi := range phis {
			phi := phi.(*ssa.Phi)
			fr.phitemps = append(fr.phitemps, fr.get(phi.Edges[predIndex]))
		}
		for i, phi := range phis {
			fr.env[phi.(*ssa.Phi)] = fr.phitemps[i]
		}
	}
	return nonPhis
}

// doRecover implements the recover() built-in.
func doRecover(caller *frame) value {
	if caller.i.mode&DisableRecover == 0 &&
		caller != nil && !caller.panicking &&
		caller.caller != nil && caller.caller.panicking {
		caller.caller.panicking = false
		caller.i.px.panicStack = nil
		p := caller.caller.panic
		caller.caller.panic = nil
		switch p := p.(type) {
		case targetPanic:
			if re, ok := p.v.(runtimeError); ok {
				return iface{caller.i.runtimeErrorString, string(re)}
			}
			return p.v
		case string:
			return iface{caller.i.runtimeErrorString, p}
		case pathAbort:
			panic(p)
		default:
			panic(fmt.Sprintf("unexpected panic type %T in target call to recover()", p))
		}
	}
	return iface{}
}

// ---------------------------------------------------------------------
// Machine: one interpreter instance bound to a program.

type Machine struct {
	i *interpreter
}

// Program bundles the SSA program and the package under test.
type Program struct {
	Prog        *ssa.Program
	Main        *ssa.Package
	Sizes       types.Sizes
	Interpreted map[string]bool
	InitPkgs    []string // packages whose init runs, in order
}

func newInterp(p *Program) *interpreter {
	i := &interpreter{
		prog:        p.Prog,
		globals:     make(map[*ssa.Global]*value),
		sizes:       p.Sizes,
		interpreted: p.Interpreted,
		mainPkg:     p.Main,
		funcIDs:     map[value]int{},
	}
	runtimePkg := i.prog.ImportedPackage("runtime")
	if runtimePkg != nil {
		i.runtimeErrorString = runtimePkg.Type("errorString").Object().Type()
	}
	for _, pkg := range i.prog.AllPackages() {
		if !p.Interpreted[pkg.Pkg.Path()] {
			continue
		}
		for _, m := range pkg.Members {
			if v, ok := m.(*ssa.Global); ok {
				cell := zero(mustDeref(v.Type()))
				i.globals[v] = &cell
			}
		}
	}
	return i
}

// runInit executes the package initialisers (the main package's init calls
// its dependencies' inits; those of non-interpreted packages are skipped).
func (i *interpreter) runInit(p *Program) {
	call(i, nil, token.NoPos, p.Main.Func("init"), nil)
}

func debugf(format string, args ...interface{}) {
	fmt.Fprintf(os.Stderr, format, args...)
}
