// Copyright 2013 The Go Authors. All rights reserved.
// Use of this source code is governed by a BSD-style
// license that can be found in the LICENSE file.

package interp

// Insertion-ordered maps.  The original interpreter used Go maps (random
// iteration order); path exploration by re-execution needs every run to be
// deterministic, so both key families (builtin-comparable keys and
// "hashable" interface/struct/array keys) are kept in one ordered table.
// Go leaves map iteration order unspecified, so insertion order is a legal
// refinement.

import (
	"go/types"
)

type hashable interface {
	hash(t types.Type) int
	eq(t types.Type, x interface{}) bool
}

type oent struct {
	key  value
	val  value
	live bool
}

type omap struct {
	keyType types.Type
	builtin bool
	idx     map[value]int // builtin keys
	hidx    map[int][]int // hashable keys: hash -> entry indices
	ents    []oent
	live    int
	nsym    int // live entries whose key is a rope (symbolic string)
}

// makeMap returns an empty initialized map of key type kt.
func makeMap(kt types.Type, reserve int64) value {
	m := &omap{keyType: kt, builtin: usesBuiltinMap(kt)}
	if m.builtin {
		m.idx = make(map[value]int)
	} else {
		m.hidx = make(map[int][]int)
	}
	return m
}

func (m *omap) find(k value) int {
	if m == nil {
		return -1
	}
	if m.builtin {
		if i, ok := m.idx[k]; ok {
			return i
		}
		return -1
	}
	hk := k.(hashable)
	for _, i := range m.hidx[hk.hash(m.keyType)] {
		if m.ents[i].live && hk.eq(m.keyType, m.ents[i].key) {
			return i
		}
	}
	return -1
}

func (m *omap) lookup(k value) (value, bool) {
	i := m.find(k)
	if i < 0 {
		return nil, false
	}
	return m.ents[i].val, true
}

func (m *omap) insert(k, v value) {
	if i := m.find(k); i >= 0 {
		m.ents[i].val = v
		return
	}
	if len(m.ents) > 32 && m.live*2 < len(m.ents) {
		m.compact()
	}
	i := len(m.ents)
	m.ents = append(m.ents, oent{k, v, true})
	m.live++
	if m.builtin {
		m.idx[k] = i
	} else {
		h := k.(hashable).hash(m.keyType)
		m.hidx[h] = append(m.hidx[h], i)
	}
}

func (m *omap) delete(k value) {
	i := m.find(k)
	if i < 0 {
		return
	}
	m.ents[i].live = false
	m.ents[i].val = nil
	m.live--
	if m.builtin {
		delete(m.idx, k)
	} else {
		h := k.(hashable).hash(m.keyType)
		l := m.hidx[h]
		for j, x := range l {
			if x == i {
				m.hidx[h] = append(l[:j:j], l[j+1:]...)
				break
			}
		}
	}
}

func (m *omap) compact() {
	var ne []oent
	for _, e := range m.ents {
		if e.live {
			ne = append(ne, e)
		}
	}
	m.ents = ne
	if m.builtin {
		m.idx = make(map[value]int, len(ne))
		for i, e := range ne {
			if _, ok := e.key.(*rope); !ok {
				m.idx[e.key] = i
			}
		}
	} else {
		m.hidx = make(map[int][]int, len(ne))
		for i, e := range ne {
			h := e.key.(hashable).hash(m.keyType)
			m.hidx[h] = append(m.hidx[h], i)
		}
	}
}

func (m *omap) len() int {
	if m == nil {
		return 0
	}
	return m.live
}

// omapIter iterates over a snapshot of the keys present when the range
// statement started, skipping entries deleted meanwhile (Go semantics allow
// entries added during iteration to be skipped).
type omapIter struct {
	m    *omap
	keys []value
	i    int
}

func (it *omapIter) next() tuple {
	for it.i < len(it.keys) {
		k := it.keys[it.i]
		it.i++
		if v, ok := it.m.lookup(k); ok {
			return tuple{true, k, v}
		}
	}
	return tuple{false, nil, nil}
}

func newOmapIter(m *omap) *omapIter {
	it := &omapIter{m: m}
	if m != nil {
		for _, e := range m.ents {
			if e.live {
				it.keys = append(it.keys, e.key)
			}
		}
	}
	return it
}

// Symbolic string keys.  A rope used as a map key is compared with every
// present key as an SMT term (one fork per candidate); if it equals none the
// entry is stored under the rope itself.  Lookups with a concrete key must
// then also be compared with the stored symbolic keys.

// findSym returns the index of the entry whose key equals k, forking on
// symbolic equalities.
func (m *omap) findSym(fr *frame, k value) int {
	if m == nil {
		return -1
	}
	if ks, isInt := k.(symInt); isInt {
		// symbolic integer key: one fork per present key, else absent
		for i := range m.ents {
			e := &m.ents[i]
			if !e.live {
				continue
			}
			if _, esym := e.key.(symInt); esym {
				fr.i.px.abort("unsupported", "symbolic integer keys on both sides of a map lookup")
			}
			eq := symEq(fr, m.keyType, ks, e.key)
			switch b := eq.(type) {
			case bool:
				if b {
					return i
				}
			case symBool:
				fr.noteSymBranch()
				if fr.i.px.forkBool(b.t) {
					return i
				}
			}
		}
		return -1
	}
	_, ksym := k.(*rope)
	if !ksym {
		if i := m.find(k); i >= 0 {
			return i
		}
		if m.nsym == 0 {
			return -1
		}
	}
	for i := range m.ents {
		e := &m.ents[i]
		if !e.live {
			continue
		}
		_, esym := e.key.(*rope)
		if !ksym && !esym {
			continue // concrete vs concrete: already decided by find
		}
		if ksym && esym && e.key.(*rope) == k.(*rope) {
			return i
		}
		eq := ropeEq(fr, k, e.key)
		switch b := eq.(type) {
		case bool:
			if b {
				return i
			}
		case symBool:
			fr.noteSymBranch()
			if fr.i.px.forkBool(b.t) {
				return i
			}
		}
	}
	return -1
}

func (m *omap) lookupSym(fr *frame, k value) (value, bool) {
	i := m.findSym(fr, k)
	if i < 0 {
		return nil, false
	}
	return m.ents[i].val, true
}

func (m *omap) insertSym(fr *frame, k, v value) {
	if _, isInt := k.(symInt); isInt {
		if i := m.findSym(fr, k); i >= 0 {
			m.ents[i].val = v
			return
		}
		fr.i.px.abort("unsupported", "inserting a new symbolic integer map key")
	}
	if i := m.findSym(fr, k); i >= 0 {
		m.ents[i].val = v
		return
	}
	if _, ok := k.(*rope); ok {
		m.ents = append(m.ents, oent{k, v, true})
		m.live++
		m.nsym++
		return
	}
	m.insert(k, v)
}

func (m *omap) deleteSym(fr *frame, k value) {
	i := m.findSym(fr, k)
	if i < 0 {
		return
	}
	if _, ok := m.ents[i].key.(*rope); ok {
		m.ents[i].live = false
		m.ents[i].val = nil
		m.live--
		m.nsym--
		return
	}
	m.delete(m.ents[i].key)
}
