package interp

// UTF-8 decoding and Unicode class membership on symbolic bytes/runes:
// engine-native exact case splits instead of interpreting table lookups.

import (
	"go/types"
	"unicode"
	"unicode/utf8"
)

func bytesConcrete(bs []value, n int) ([]byte, bool) {
	if len(bs) < n {
		n = len(bs)
	}
	out := make([]byte, n)
	for i := 0; i < n; i++ {
		b, ok := bs[i].(byte)
		if !ok {
			return nil, false
		}
		out[i] = b
	}
	return out, true
}

func decodeRuneSym(fr *frame, bs []value) value {
	if len(bs) == 0 {
		return tuple{rune(utf8.RuneError), 0}
	}
	if b0, ok := bs[0].(byte); ok && b0 < 0x80 {
		return tuple{rune(b0), 1}
	}
	if cb, ok := bytesConcrete(bs, 4); ok {
		r, n := utf8.DecodeRune(cb)
		return tuple{r, n}
	}
	px := fr.i.px
	a := &px.ar
	n := len(bs)
	bt := func(i int) *Term {
		t, _ := px.intTerm(bs[i])
		return t
	}
	rng := func(t *Term, lo, hi uint64) *Term {
		return a.And(a.Cmp(OpUle, a.Const(8, lo), t), a.Cmp(OpUle, t, a.Const(8, hi)))
	}
	cont := func(t *Term) *Term { return rng(t, 0x80, 0xBF) }
	b0 := bt(0)
	c1 := a.Cmp(OpUlt, b0, a.Const(8, 0x80))
	c2, c3, c4 := tFalse, tFalse, tFalse
	if n >= 2 {
		c2 = a.And(rng(b0, 0xC2, 0xDF), cont(bt(1)))
	}
	if n >= 3 {
		b1 := bt(1)
		lead := a.Or(a.Or(a.And(a.Eq(b0, a.Const(8, 0xE0)), rng(b1, 0xA0, 0xBF)),
			a.And(rng(b0, 0xE1, 0xEC), cont(b1))),
			a.Or(a.And(a.Eq(b0, a.Const(8, 0xED)), rng(b1, 0x80, 0x9F)),
				a.And(rng(b0, 0xEE, 0xEF), cont(b1))))
		c3 = a.And(lead, cont(bt(2)))
	}
	if n >= 4 {
		b1 := bt(1)
		lead := a.Or(a.Or(a.And(a.Eq(b0, a.Const(8, 0xF0)), rng(b1, 0x90, 0xBF)),
			a.And(rng(b0, 0xF1, 0xF3), cont(b1))),
			a.And(a.Eq(b0, a.Const(8, 0xF4)), rng(b1, 0x80, 0x8F)))
		c4 = a.And(lead, a.And(cont(bt(2)), cont(bt(3))))
	}
	c5 := a.Not(a.Or(a.Or(c1, c2), a.Or(c3, c4)))
	fr.noteSymBranch()
	z := func(i int, m uint64) *Term { return a.ZExt(a.Bin(OpBAnd, bt(i), a.Const(8, m)), 32) }
	sh := func(t *Term, k uint64) *Term { return a.Bin(OpShl, t, a.Const(32, k)) }
	switch px.fork([]*Term{c1, c2, c3, c4, c5}) {
	case 0:
		return tuple{wrapInt(a.ZExt(b0, 32), types.Int32), 1}
	case 1:
		r := a.Bin(OpBOr, sh(z(0, 0x1F), 6), z(1, 0x3F))
		return tuple{wrapInt(r, types.Int32), 2}
	case 2:
		r := a.Bin(OpBOr, a.Bin(OpBOr, sh(z(0, 0x0F), 12), sh(z(1, 0x3F), 6)), z(2, 0x3F))
		return tuple{wrapInt(r, types.Int32), 3}
	case 3:
		r := a.Bin(OpBOr, a.Bin(OpBOr, sh(z(0, 0x07), 18), sh(z(1, 0x3F), 12)), a.Bin(OpBOr, sh(z(2, 0x3F), 6), z(3, 0x3F)))
		return tuple{wrapInt(r, types.Int32), 4}
	}
	return tuple{rune(utf8.RuneError), 1}
}

func extDecodeRune(fr *frame, args []value) value {
	return decodeRuneSym(fr, args[0].([]value))
}

func extDecodeRuneInString(fr *frame, args []value) value {
	switch s := args[0].(type) {
	case string:
		r, n := utf8.DecodeRuneInString(s)
		return tuple{r, n}
	case *rope:
		return decodeRuneSym(fr, s.toBytes(fr))
	}
	panic("DecodeRuneInString")
}

// rangeTableOf reads an interpreted *unicode.RangeTable into a native one.
func rangeTableOf(fr *frame, v value) *unicode.RangeTable {
	p := v.(*value)
	if p == nil {
		derefNil(fr)
	}
	st := (*p).(structure)
	rt := &unicode.RangeTable{}
	for _, e := range st[0].([]value) {
		r := e.(structure)
		rt.R16 = append(rt.R16, unicode.Range16{Lo: r[0].(uint16), Hi: r[1].(uint16), Stride: r[2].(uint16)})
	}
	for _, e := range st[1].([]value) {
		r := e.(structure)
		rt.R32 = append(rt.R32, unicode.Range32{Lo: r[0].(uint32), Hi: r[1].(uint32), Stride: r[2].(uint32)})
	}
	rt.LatinOffset = st[2].(int)
	return rt
}

func extUnicodeIs(fr *frame, args []value) value {
	rt := rangeTableOf(fr, args[0])
	s, ok := args[1].(symInt)
	if !ok {
		return unicode.Is(rt, args[1].(rune))
	}
	px := fr.i.px
	a := &px.ar
	r := s.t // 32-bit
	acc := tFalse
	addRange := func(lo, hi, stride uint64) {
		c := a.And(a.Cmp(OpUle, a.Const(32, lo), r), a.Cmp(OpUle, r, a.Const(32, hi)))
		if stride > 1 {
			c = a.And(c, a.Eq(a.Bin(OpURem, a.Bin(OpSub, r, a.Const(32, lo)), a.Const(32, stride)), a.Const(32, 0)))
		}
		acc = a.Or(acc, c)
	}
	// If the rune is known to be ASCII on this path (common: parser inputs)
	// only ASCII ranges matter; otherwise the whole table is encoded.
	ascii := a.Cmp(OpUlt, r, a.Const(32, 0x80))
	if px.forkBool(ascii) {
		for _, x := range rt.R16 {
			if x.Lo >= 0x80 {
				break
			}
			hi := uint64(x.Hi)
			if hi > 0x7f && x.Stride == 1 {
				hi = 0x7f
			}
			addRange(uint64(x.Lo), hi, uint64(x.Stride))
		}
		return wrapBool(acc)
	}
	for _, x := range rt.R16 {
		addRange(uint64(x.Lo), uint64(x.Hi), uint64(x.Stride))
	}
	for _, x := range rt.R32 {
		addRange(uint64(x.Lo), uint64(x.Hi), uint64(x.Stride))
	}
	return wrapBool(acc)
}

func extUnicodeIsSpace(fr *frame, args []value) value {
	s, ok := args[0].(symInt)
	if !ok {
		return unicode.IsSpace(args[0].(rune))
	}
	px := fr.i.px
	a := &px.ar
	r := s.t
	in := func(lo, hi uint64) *Term {
		return a.And(a.Cmp(OpUle, a.Const(32, lo), r), a.Cmp(OpUle, r, a.Const(32, hi)))
	}
	acc := a.Or(in(9, 13), in(32, 32))
	for _, p := range [][2]uint64{{0x85, 0x85}, {0xA0, 0xA0}, {0x1680, 0x1680}, {0x2000, 0x200a}, {0x2028, 0x2029}, {0x202f, 0x202f}, {0x205f, 0x205f}, {0x3000, 0x3000}} {
		acc = a.Or(acc, in(p[0], p[1]))
	}
	return wrapBool(acc)
}

func extUnicodeToLower(fr *frame, args []value) value {
	s, ok := args[0].(symInt)
	if !ok {
		return unicode.ToLower(args[0].(rune))
	}
	px := fr.i.px
	a := &px.ar
	r := s.t
	if px.forkBool(a.Cmp(OpUlt, r, a.Const(32, 0x80))) {
		up := a.And(a.Cmp(OpUle, a.Const(32, 'A'), r), a.Cmp(OpUle, r, a.Const(32, 'Z')))
		return wrapInt(a.Ite(up, a.Bin(OpAdd, r, a.Const(32, 32)), r), types.Int32)
	}
	v := fr.enumerate(s, 64)
	return unicode.ToLower(rune(v))
}
