package interp

// Long-lived SMT solver processes driven over stdin/stdout with SMT-LIB2.

import (
	"os"
	"sync"
	"bufio"
	"fmt"
	"io"
	"os/exec"
	"strconv"
	"strings"
	"sync/atomic"
	"time"
)

type Result int

const (
	Unknown Result = iota
	Sat
	Unsat
)

func (r Result) String() string {
	return [...]string{"unknown", "sat", "unsat"}[r]
}

type SolverSpec struct {
	Name      string // "z3", "z3-new", "cvc5", "cvc5-bvint"
	IntEnc    bool
	TimeoutMs int
}

func (s SolverSpec) String() string {
	enc := "bv"
	if s.IntEnc {
		enc = "wrapped-int"
	}
	return s.Name + "/" + enc
}

type Solver struct {
	spec   SolverSpec
	cmd    *exec.Cmd
	in     io.WriteCloser
	out    *bufio.Reader
	pr     *smtPrinter
	sb     strings.Builder
	depth  int
	dead   bool
	Log    io.Writer // optional transcript
	nCheck int64
	tCheck time.Duration
	// emitted-at-level bookkeeping: terms emitted at depth>base are forgotten on pop
	levels []map[*Term]bool
	seq    int
}

// asyncBuf drains the solver's output as it is produced (unbounded), so that
// a solver that answers every definition with an error line can never fill
// its pipe, block, and stop reading the definitions we are still writing.
type asyncBuf struct {
	mu   sync.Mutex
	cond *sync.Cond
	buf  []byte
	err  error
}

func (a *asyncBuf) pump(r io.Reader) {
	tmp := make([]byte, 1<<16)
	for {
		n, err := r.Read(tmp)
		a.mu.Lock()
		a.buf = append(a.buf, tmp[:n]...)
		if err != nil {
			a.err = err
		}
		a.cond.Broadcast()
		a.mu.Unlock()
		if err != nil {
			return
		}
	}
}

func (a *asyncBuf) Read(p []byte) (int, error) {
	a.mu.Lock()
	defer a.mu.Unlock()
	for len(a.buf) == 0 && a.err == nil {
		a.cond.Wait()
	}
	if len(a.buf) == 0 {
		return 0, a.err
	}
	n := copy(p, a.buf)
	a.buf = a.buf[n:]
	return n, nil
}

var solverSerial int64

var SolverStats struct {
	Checks   int64
	NanosSum int64
	Errors   int64
}

func NewSolver(spec SolverSpec) (*Solver, error) {
	var cmd *exec.Cmd
	switch spec.Name {
	case "z3":
		cmd = exec.Command("z3", "-in", "-smt2")
	case "z3-new":
		cmd = exec.Command("z3-new", "-in", "-smt2")
	case "cvc5":
		cmd = exec.Command("cvc5", "--incremental", "--lang=smt2", "--produce-models", fmt.Sprintf("--tlimit-per=%d", spec.TimeoutMs))
	case "cvc5-bvint":
		cmd = exec.Command("cvc5", "--incremental", "--lang=smt2", "--produce-models", "--solve-bv-as-int=sum", fmt.Sprintf("--tlimit-per=%d", spec.TimeoutMs))
	default:
		return nil, fmt.Errorf("unknown solver %q", spec.Name)
	}
	in, err := cmd.StdinPipe()
	if err != nil {
		return nil, err
	}
	outp, err := cmd.StdoutPipe()
	if err != nil {
		return nil, err
	}
	cmd.Stderr = nil
	if err := cmd.Start(); err != nil {
		return nil, err
	}
	ab := &asyncBuf{}
	ab.cond = sync.NewCond(&ab.mu)
	go ab.pump(outp)
	s := &Solver{spec: spec, cmd: cmd, in: in, out: bufio.NewReaderSize(ab, 1<<16)}
	if dir := os.Getenv("VCHECK_SOLVERLOG"); dir != "" {
		if f, err := os.Create(fmt.Sprintf("%s/solver_%s_%d.smt2", dir, spec.Name, atomic.AddInt64(&solverSerial, 1))); err == nil {
			s.Log = f
		}
	}
	s.pr = &smtPrinter{sb: &s.sb, emitted: map[*Term]bool{}, intEnc: spec.IntEnc}
	s.levels = []map[*Term]bool{{}}
	if strings.HasPrefix(spec.Name, "z3") {
		s.send(fmt.Sprintf("(set-option :timeout %d)\n(set-option :produce-models true)\n", spec.TimeoutMs))
	} else {
		s.send("(set-logic ALL)\n")
	}
	if spec.IntEnc {
		s.send(IntPreamble())
	}
	return s, nil
}

func (s *Solver) send(txt string) {
	if s.dead {
		return
	}
	if s.Log != nil {
		io.WriteString(s.Log, txt)
	}
	if _, err := io.WriteString(s.in, txt); err != nil {
		s.dead = true
	}
}

func (s *Solver) Close() {
	if s.cmd != nil {
		s.in.Close()
		s.cmd.Process.Kill()
		s.cmd.Wait()
		s.cmd = nil
	}
}

func (s *Solver) flushDefs() {
	if s.sb.Len() > 0 {
		s.send(s.sb.String())
		s.sb.Reset()
	}
}

func (s *Solver) Push() {
	s.flushDefs()
	s.send("(push 1)\n")
	s.depth++
	s.levels = append(s.levels, map[*Term]bool{})
}

func (s *Solver) Pop() {
	s.flushDefs()
	s.send("(pop 1)\n")
	s.depth--
	top := s.levels[len(s.levels)-1]
	for t := range top {
		delete(s.pr.emitted, t)
	}
	s.levels = s.levels[:len(s.levels)-1]
}

// define makes sure t has been emitted in the current scope.
func (s *Solver) define(t *Term) error {
	before := len(s.pr.emitted)
	_ = before
	s.pr.err = nil
	s.emitTracked(t)
	s.flushDefs()
	return s.pr.err
}

func (s *Solver) emitTracked(t *Term) {
	if s.pr.emitted[t] {
		return
	}
	switch t.op {
	case OpConst, OpBoolConst, OpFConst:
		return
	}
	for _, a := range t.args {
		s.emitTracked(a)
	}
	// emit this node only (children done)
	s.pr.emit(t)
	s.levels[len(s.levels)-1][t] = true
}

func (s *Solver) Assert(t *Term) error {
	if err := s.define(t); err != nil {
		return err
	}
	s.send("(assert " + s.pr.ref(t) + ")\n")
	return nil
}

// readSExpr reads one line-or-sexpr response.
func (s *Solver) readResp() (string, error) {
	var sb strings.Builder
	depth := 0
	started := false
	inStr := false
	for {
		c, err := s.out.ReadByte()
		if err != nil {
			s.dead = true
			return sb.String(), err
		}
		if !started {
			if c == ' ' || c == '\n' || c == '\r' || c == '\t' {
				continue
			}
			started = true
		}
		sb.WriteByte(c)
		if inStr {
			if c == '"' {
				inStr = false
			}
			continue
		}
		switch c {
		case '"':
			inStr = true
		case '(':
			depth++
		case ')':
			depth--
			if depth == 0 {
				return sb.String(), nil
			}
		case '\n':
			if depth == 0 {
				return strings.TrimSpace(sb.String()), nil
			}
		}
	}
}

// Every query is followed by an (echo) of a fresh marker and the answer is
// whatever arrives before that marker: an error line produced by an earlier
// definition can then neither be mistaken for this query's answer nor shift
// the answers of later queries by one.  Any error line makes the answer
// inconclusive.
func (s *Solver) marker() string {
	s.seq++
	return fmt.Sprintf("vsync-%d", s.seq)
}

func (s *Solver) Check() (Result, error) {
	s.flushDefs()
	t0 := time.Now()
	mk := s.marker()
	s.send("(check-sat)\n(echo \"" + mk + "\")\n")
	if s.dead {
		return Unknown, fmt.Errorf("solver dead")
	}
	res, have := Unknown, false
	var firstErr string
	for {
		resp, err := s.readResp()
		if err != nil {
			return Unknown, err
		}
		if strings.Trim(resp, "\"") == mk {
			break
		}
		switch resp {
		case "sat":
			res, have = Sat, true
		case "unsat":
			res, have = Unsat, true
		case "unknown", "timeout":
			res, have = Unknown, true
		}
		if strings.HasPrefix(resp, "(error") && firstErr == "" {
			firstErr = resp
		}
		// ignore other chatter
	}
	s.account(time.Since(t0))
	if firstErr != "" {
		if atomic.AddInt64(&SolverStats.Errors, 1) <= 3 {
			fmt.Fprintf(os.Stderr, "SOLVER-ERROR (%s): %s\n", s.spec.Name, firstErr)
		}
		return Unknown, fmt.Errorf("solver: %s", firstErr)
	}
	if !have {
		return Unknown, fmt.Errorf("solver: no answer")
	}
	return res, nil
}

func (s *Solver) account(d time.Duration) {
	s.nCheck++
	s.tCheck += d
	atomic.AddInt64(&SolverStats.Checks, 1)
	atomic.AddInt64(&SolverStats.NanosSum, int64(d))
}

// CheckWith checks satisfiability of the current assertions plus extra.
func (s *Solver) CheckWith(extra *Term) (Result, error) {
	if err := s.define(extra); err != nil {
		return Unknown, err
	}
	s.Push()
	s.send("(assert " + s.pr.ref(extra) + ")\n")
	r, err := s.Check()
	if r == Sat {
		// caller may want a model; leave scope open until ModelAndPop / PopCheck
		return r, err
	}
	s.Pop()
	return r, err
}

// PopCheck closes the scope left open by a Sat CheckWith.
func (s *Solver) PopCheck() { s.Pop() }

// Model fetches values for the given variables (after a Sat answer).
func (s *Solver) Model(vars []*Term) (Model, error) {
	m := Model{}
	if len(vars) == 0 {
		return m, nil
	}
	var sb strings.Builder
	sb.WriteString("(get-value (")
	n := 0
	for _, v := range vars {
		if !s.pr.emitted[v] {
			m[v.name] = 0 // never mentioned to the solver: unconstrained
			continue
		}
		n++
		sb.WriteString(v.name)
		sb.WriteByte(' ')
	}
	if n == 0 {
		return m, nil
	}
	sb.WriteString("))\n")
	mk := s.marker()
	s.send(sb.String() + "(echo \"" + mk + "\")\n")
	resp := ""
	for {
		r, err := s.readResp()
		if err != nil {
			return nil, err
		}
		if strings.Trim(r, "\"") == mk {
			break
		}
		if strings.HasPrefix(r, "(error") {
			resp = r
		} else if resp == "" && strings.HasPrefix(r, "(") {
			resp = r
		}
	}
	if strings.HasPrefix(resp, "(error") || resp == "" {
		return nil, fmt.Errorf("solver: %s", resp)
	}
	sx, _, err := parseSExpr(resp, 0)
	if err != nil {
		return nil, fmt.Errorf("model parse: %v in %q", err, resp)
	}
	for _, pair := range sx.list {
		if len(pair.list) != 2 {
			continue
		}
		name := pair.list[0].atom
		v, ok := sexprValue(pair.list[1])
		if !ok {
			return nil, fmt.Errorf("model value parse: %q", resp)
		}
		m[name] = v
	}
	return m, nil
}

type sexpr struct {
	atom string
	list []*sexpr
	isL  bool
}

func parseSExpr(s string, i int) (*sexpr, int, error) {
	for i < len(s) && (s[i] == ' ' || s[i] == '\n' || s[i] == '\t' || s[i] == '\r') {
		i++
	}
	if i >= len(s) {
		return nil, i, fmt.Errorf("eof")
	}
	if s[i] == '(' {
		i++
		n := &sexpr{isL: true}
		for {
			for i < len(s) && (s[i] == ' ' || s[i] == '\n' || s[i] == '\t' || s[i] == '\r') {
				i++
			}
			if i >= len(s) {
				return nil, i, fmt.Errorf("unbalanced")
			}
			if s[i] == ')' {
				return n, i + 1, nil
			}
			c, j, err := parseSExpr(s, i)
			if err != nil {
				return nil, j, err
			}
			n.list = append(n.list, c)
			i = j
		}
	}
	j := i
	for j < len(s) && s[j] != ' ' && s[j] != '\n' && s[j] != '(' && s[j] != ')' && s[j] != '\t' && s[j] != '\r' {
		j++
	}
	return &sexpr{atom: s[i:j]}, j, nil
}

func sexprValue(e *sexpr) (uint64, bool) {
	if !e.isL {
		a := e.atom
		switch {
		case a == "true":
			return 1, true
		case a == "false":
			return 0, true
		case strings.HasPrefix(a, "#x"):
			v, err := strconv.ParseUint(a[2:], 16, 64)
			return v, err == nil
		case strings.HasPrefix(a, "#b"):
			v, err := strconv.ParseUint(a[2:], 2, 64)
			return v, err == nil
		default:
			if v, err := strconv.ParseUint(a, 10, 64); err == nil {
				return v, true
			}
		}
		return 0, false
	}
	// (- n)
	if len(e.list) == 2 && e.list[0].atom == "-" {
		v, ok := sexprValue(e.list[1])
		return -v, ok
	}
	// (_ bvN w)
	if len(e.list) == 3 && e.list[0].atom == "_" && strings.HasPrefix(e.list[1].atom, "bv") {
		v, err := strconv.ParseUint(e.list[1].atom[2:], 10, 64)
		return v, err == nil
	}
	// (fp s e m)
	if len(e.list) == 4 && e.list[0].atom == "fp" {
		sg, ok1 := sexprValue(e.list[1])
		ex, ok2 := sexprValue(e.list[2])
		mn, ok3 := sexprValue(e.list[3])
		return sg<<63 | ex<<52 | mn, ok1 && ok2 && ok3
	}
	// (_ +zero 11 53) etc
	if len(e.list) == 4 && e.list[0].atom == "_" {
		switch e.list[1].atom {
		case "+zero":
			return 0, true
		case "-zero":
			return 1 << 63, true
		case "+oo":
			return 0x7ff0000000000000, true
		case "-oo":
			return 0xfff0000000000000, true
		case "NaN":
			return 0x7ff8000000000001, true
		}
	}
	return 0, false
}

// ---------------------------------------------------------------------
// One-shot portfolio query: are the given assertions satisfiable?

func OneShot(spec SolverSpec, asserts []*Term) (Result, Model, time.Duration, error) {
	t0 := time.Now()
	s, err := NewSolver(spec)
	if err != nil {
		return Unknown, nil, 0, err
	}
	defer s.Close()
	seen := map[*Term]bool{}
	var vars []*Term
	for _, a := range asserts {
		if err := s.Assert(a); err != nil {
			return Unknown, nil, time.Since(t0), err
		}
		collectVars(a, seen, &vars)
	}
	r, err := s.Check()
	var m Model
	if r == Sat {
		m, _ = s.Model(vars)
	}
	return r, m, time.Since(t0), err
}
