package interp

// Footprint tracking: which package-level (shared between all VMs) memory
// does an API entry point write?  At vFootprintBegin every cell reachable
// from a package-level variable of the package under test and of x/exp/rand
// is marked; afterwards every plain store to a marked cell that happens while
// the path holds no mutex is recorded (atomic operations and stores under a
// lock are synchronised and are not race candidates).

import (
	"fmt"
	"strings"
	"unsafe"
)

func (i *interpreter) markShared() {
	i.shared = map[*value]string{}
	i.sharedMaps = map[*omap]string{}
	for g, cell := range i.globals {
		pp := g.Pkg.Pkg.Path()
		if pp != i.mainPkg.Pkg.Path() && !strings.HasSuffix(pp, "x/exp/rand") {
			continue
		}
		name := g.Name()
		if strings.HasPrefix(name, "init$") {
			continue
		}
		i.markCell(cell, name, 0)
	}
}

func (i *interpreter) markCell(p *value, name string, depth int) {
	if p == nil || depth > 64 {
		return
	}
	if _, seen := i.shared[p]; seen {
		return
	}
	i.shared[p] = name
	i.walkShared(*p, name, depth+1)
}

func (i *interpreter) walkShared(v value, name string, depth int) {
	if depth > 64 {
		return
	}
	switch x := v.(type) {
	case *value:
		i.markCell(x, name, depth)
	case structure:
		for k := range x {
			i.markCell(&x[k], name, depth)
		}
	case array:
		for k := range x {
			i.markCell(&x[k], name, depth)
		}
	case []value:
		full := x[:cap(x)]
		for k := range full {
			i.markCell(&full[k], name, depth)
		}
	case iface:
		i.walkShared(x.v, name, depth)
	case *omap:
		if x == nil {
			return
		}
		if _, seen := i.sharedMaps[x]; seen {
			return
		}
		i.sharedMaps[x] = name
		for k := range x.ents {
			i.walkShared(x.ents[k].key, name, depth+1)
			i.walkShared(x.ents[k].val, name, depth+1)
		}
	case unsafe.Pointer:
		if x != nil {
			i.markCell((*value)(x), name, depth)
		}
	case *closure:
		for _, e := range x.Env {
			i.walkShared(e, name, depth+1)
		}
	case tuple:
		for _, e := range x {
			i.walkShared(e, name, depth+1)
		}
	}
}

// publish: a value stored into shared memory makes everything reachable from
// it shared as well (a VM that parks one of its objects in a package-level
// cache has published it to every other VM).
func (i *interpreter) publish(addr *value) {
	if name, ok := i.shared[addr]; ok {
		i.walkShared(*addr, name, 1)
	}
}

func (i *interpreter) noteSharedWrite(fr *frame, addr *value) {
	name, ok := i.shared[addr]
	if !ok || i.px.locksHeld > 0 {
		return
	}
	i.px.recordSharedWrite(fr, name)
}

func (i *interpreter) noteSharedMapWrite(fr *frame, m *omap) {
	name, ok := i.sharedMaps[m]
	if !ok || i.px.locksHeld > 0 {
		return
	}
	i.px.recordSharedWrite(fr, name+" (map)")
}

func (px *pathCtx) recordSharedWrite(fr *frame, name string) {
	where, _ := stackOf(fr)
	px.sharedWrites = append(px.sharedWrites, fmt.Sprintf("%s written at %s", name, where))
	if px.sharedWriteNames == nil {
		px.sharedWriteNames = map[string]bool{}
	}
	px.sharedWriteNames[name] = true
}
