package interp

// Function summaries: contracts proved by one check and used by others so
// that an arithmetic kernel is not re-encoded under every caller.

import (
	"fmt"
	"math"

	"golang.org/x/tools/go/ssa"
)

type summaryFn func(fr *frame, fn *ssa.Function, args []value) (value, bool)

var summaries = map[string]summaryFn{
	"roll-contract": rollContract,
	"roll-log":      rollLog,
}

// rollLog: for provenance checks.  Logs which generator a die is drawn from
// and returns a low face (1 or 2, alternating) without forking on values.
func rollLog(fr *frame, fn *ssa.Function, args []value) (value, bool) {
	px := fr.i.px
	mode, ok := args[2].(int)
	if !ok || mode != 0 {
		return nil, false
	}
	n, ok := args[1].(int)
	if !ok || n < 1 {
		return nil, false
	}
	src := args[0].(*value)
	px.drawBound()
	t := px.newSym("draw", fmt.Sprintf("draw%d", px.nDraw), 64)
	// alternating 1, 2 per generator: two generators that are used the same
	// way roll the same faces whatever else happens in between
	if px.drawsByRecv == nil {
		px.drawsByRecv = map[*value]int{}
	}
	face := 1 + px.drawsByRecv[src]%2
	px.drawsByRecv[src]++
	if face > n {
		face = n
	}
	px.nDraw++
	px.drawLog = append(px.drawLog, drawRec{recv: src, sym: t})
	if fr.i.shared != nil {
		g := src
		if g == nil {
			// Roll falls back to the package generator
			if gv := fr.i.mainPkg.Var("randSource"); gv != nil {
				if cell, ok := fr.i.globals[gv]; ok {
					if p, ok := (*cell).(*value); ok {
						g = p
					}
				}
			}
		}
		fr.i.noteSharedWrite(fr, g)
	}
	// pin the generator output so that native replay rolls the same face
	px.pinFresh(t, uint64(face-1))
	return face, true
}

// rollContract is the contract of Roll(src, n, mode) established by C05:
// for 1 <= n <= MaxInt64-1 and mode 0 it consumes generator outputs of src
// (the package generator iff src == nil) and returns (v mod n)+1 for the
// accepted output v.  The summary draws one output constrained to v < n
// (always accepted by the real sampler), so the model replays natively.
// Everything outside the contract's precondition runs the real code.
func rollContract(fr *frame, fn *ssa.Function, args []value) (value, bool) {
	px := fr.i.px
	a := &px.ar
	mode, ok := args[2].(int)
	if !ok || mode != 0 {
		return nil, false
	}
	n, k := px.intTerm(args[1])
	if n.w != 64 {
		return nil, false
	}
	inRange := a.And(a.Cmp(OpSle, a.Const(64, 1), n), a.Cmp(OpSle, n, a.Const(64, math.MaxInt64-1)))
	if !px.forkBool(inRange) {
		return nil, false
	}
	src := args[0].(*value)
	px.drawBound()
	t := px.newSym("draw", fmt.Sprintf("draw%d", px.nDraw), 64)
	px.nDraw++
	px.drawLog = append(px.drawLog, drawRec{recv: src, sym: t})
	px.workUnits++
	px.assume(a.Cmp(OpUlt, t, n))
	_ = k
	return wrapInt(a.Bin(OpAdd, t, a.Const(64, 1)), k), true
}

// drawBound ends a path that would roll more dice than the harness's stated
// bound (vMaxDraws); such paths are outside the claim, like a failed assumption.
func (px *pathCtx) drawBound() {
	if px.maxDraws > 0 && px.nDraw >= px.maxDraws {
		px.abort("assume", "more than %d dice on this path (stated bound)", px.maxDraws)
	}
}
