package interp

// Ropes: strings with symbolic content.  A rope is a sequence of parts:
// literal text, the decimal rendering of a signed 64-bit term, or a run of
// symbolic bytes of concrete count.  Only operations whose result is again
// a rope, a term or decidable by shape are supported; anything else ends the
// path as "unsupported" (counted, never success).

import (
	"fmt"
	"go/token"
	"go/types"
	"strconv"
	"strings"
	"unicode/utf8"
)

type ropeKind uint8

const (
	rkLit ropeKind = iota
	rkNum
	rkBytes
	rkOpaque // unknown content of symbolic length (work metering only)
)

type ropePart struct {
	kind  ropeKind
	lit   string
	num   *Term   // signed 64-bit (rkNum) or length (rkOpaque)
	bytes []*Term // 8-bit each
	id    *Term   // rkOpaque: the term whose rendering this is
}

type rope struct {
	parts []ropePart
	lenT  *Term // cached length term (64-bit), when symbolic
}

// mkRope normalises parts; returns a Go string when no symbolic part is left.
func mkRope(parts []ropePart) value {
	var out []ropePart
	for _, p := range parts {
		switch p.kind {
		case rkLit:
			if p.lit == "" {
				continue
			}
			if n := len(out); n > 0 && out[n-1].kind == rkLit {
				out[n-1].lit += p.lit
				continue
			}
		case rkNum:
			if p.num.op == OpConst {
				s := strconv.FormatInt(int64(p.num.cval), 10)
				if n := len(out); n > 0 && out[n-1].kind == rkLit {
					out[n-1].lit += s
				} else {
					out = append(out, ropePart{kind: rkLit, lit: s})
				}
				continue
			}
		case rkBytes:
			if len(p.bytes) == 0 {
				continue
			}
			allc := true
			for _, b := range p.bytes {
				if b.op != OpConst {
					allc = false
					break
				}
			}
			if allc {
				bs := make([]byte, len(p.bytes))
				for i, b := range p.bytes {
					bs[i] = byte(b.cval)
				}
				if n := len(out); n > 0 && out[n-1].kind == rkLit {
					out[n-1].lit += string(bs)
				} else {
					out = append(out, ropePart{kind: rkLit, lit: string(bs)})
				}
				continue
			}
			if n := len(out); n > 0 && out[n-1].kind == rkBytes {
				out[n-1].bytes = append(append([]*Term{}, out[n-1].bytes...), p.bytes...)
				continue
			}
		}
		out = append(out, p)
	}
	if len(out) == 0 {
		return ""
	}
	if len(out) == 1 && out[0].kind == rkLit {
		return out[0].lit
	}
	return &rope{parts: out}
}

func partsOf(v value) []ropePart {
	switch s := v.(type) {
	case string:
		if s == "" {
			return nil
		}
		return []ropePart{{kind: rkLit, lit: s}}
	case *rope:
		return s.parts
	}
	panic(fmt.Sprintf("partsOf: %T", v))
}

func ropeConcat(vs ...value) value {
	var parts []ropePart
	for _, v := range vs {
		parts = append(parts, partsOf(v)...)
	}
	return mkRope(parts)
}

func (r *rope) String() string {
	var sb strings.Builder
	for _, p := range r.parts {
		switch p.kind {
		case rkLit:
			sb.WriteString(p.lit)
		case rkNum:
			fmt.Fprintf(&sb, "⟨int t%d⟩", p.num.id)
		case rkBytes:
			fmt.Fprintf(&sb, "⟨%d bytes⟩", len(p.bytes))
		case rkOpaque:
			sb.WriteString("⟨opaque⟩")
		}
	}
	return sb.String()
}

func ropeFromBytes(fr *frame, bs []value) value {
	px := fr.i.px
	ts := make([]*Term, len(bs))
	for i, b := range bs {
		t, _ := px.intTerm(b)
		ts[i] = t
	}
	return mkRope([]ropePart{{kind: rkBytes, bytes: ts}})
}

func ropeFromRune(fr *frame, x symInt) value {
	px := fr.i.px
	a := &px.ar
	// ASCII only; other code points fork on the encoding length
	r32 := x.t
	if r32.w != 32 {
		r32 = a.ZExt(a.Trunc(x.t, min8(x.t.w, 32)), 32)
	}
	if px.forkBool(a.Cmp(OpUlt, r32, a.Const(32, 0x80))) {
		return mkRope([]ropePart{{kind: rkBytes, bytes: []*Term{a.Trunc(r32, 8)}}})
	}
	// concretise (multi-byte) rune by model enumeration
	v := fr.enumerate(symInt{r32, types.Int32}, 64)
	return string(rune(v))
}

func min8(a, b uint8) uint8 {
	if a < b {
		return a
	}
	return b
}

// enumerate concretises s by deciding its bits from the most significant
// one down (a deterministic sequence of two-way forks, so replays of a
// decision prefix see the same conditions).  Every feasible value becomes
// one path; max bounds the width that may be enumerated this way.
func (fr *frame) enumerate(s symInt, max int) int64 {
	px := fr.i.px
	a := &px.ar
	w := s.t.w
	if s.t.op == OpConst {
		return sext64(s.t.cval, w)
	}
	var v uint64
	for i := int(w) - 1; i >= 0; i-- {
		bit := a.Eq(a.Bin(OpBAnd, a.Bin(OpLShr, s.t, a.Const(w, uint64(i))), a.Const(w, 1)), a.Const(w, 1))
		if px.forkBool(bit) {
			v |= 1 << uint(i)
		}
	}
	_ = max
	return sext64(v, w)
}

func (r *rope) hasOnlyFixed() bool {
	for _, p := range r.parts {
		if p.kind == rkNum || p.kind == rkOpaque {
			return false
		}
	}
	return true
}

// atoms flattens a fixed-width rope to one term per byte.
func (r *rope) atoms(px *pathCtx) []*Term {
	var out []*Term
	for _, p := range r.parts {
		switch p.kind {
		case rkLit:
			for i := 0; i < len(p.lit); i++ {
				out = append(out, px.ar.Const(8, uint64(p.lit[i])))
			}
		case rkBytes:
			out = append(out, p.bytes...)
		default:
			panic("atoms: non-fixed part")
		}
	}
	return out
}

func strAtoms(px *pathCtx, v value) ([]*Term, bool) {
	switch s := v.(type) {
	case string:
		out := make([]*Term, len(s))
		for i := 0; i < len(s); i++ {
			out[i] = px.ar.Const(8, uint64(s[i]))
		}
		return out, true
	case *rope:
		if s.hasOnlyFixed() {
			return s.atoms(px), true
		}
	}
	return nil, false
}

func (r *rope) length(fr *frame) value {
	px := fr.i.px
	a := &px.ar
	n := 0
	var sym *Term
	for _, p := range r.parts {
		switch p.kind {
		case rkLit:
			n += len(p.lit)
		case rkBytes:
			n += len(p.bytes)
		case rkNum:
			d := a.mk(OpDecLen, 64, p.num)
			if sym == nil {
				sym = d
			} else {
				sym = a.Bin(OpAdd, sym, d)
			}
		case rkOpaque:
			if sym == nil {
				sym = p.num
			} else {
				sym = a.Bin(OpAdd, sym, p.num)
			}
		}
	}
	if sym == nil {
		return n
	}
	if r.lenT == nil {
		r.lenT = a.Bin(OpAdd, sym, a.Const(64, uint64(n)))
		if r.lenT == sym { // n == 0: keep a distinct node for pattern matching
			r.lenT = sym
		}
	}
	return symInt{r.lenT, types.Int}
}

// fixedPrefixLen returns the byte length of parts [0,k) if concrete.
func (r *rope) index(fr *frame, idx value) value {
	px := fr.i.px
	if r.hasOnlyFixed() {
		at := r.atoms(px)
		i := fr.concretizeIndex(idx, len(at))
		return wrapInt(at[i], types.Uint8)
	}
	i, ok := idx.(int)
	if !ok {
		px.abort("unsupported", "symbolic index into rope with number parts")
	}
	pos := 0
	for _, p := range r.parts {
		switch p.kind {
		case rkLit:
			if i < pos+len(p.lit) {
				return p.lit[i-pos]
			}
			pos += len(p.lit)
		case rkBytes:
			if i < pos+len(p.bytes) {
				return wrapInt(p.bytes[i-pos], types.Uint8)
			}
			pos += len(p.bytes)
		default:
			px.abort("unsupported", "index into rope past a number part")
		}
	}
	goPanic(fmt.Sprintf("runtime error: index out of range [%d]", i))
	return nil
}

// matchLenMinus recognises hi == len(r) - c.
func (r *rope) matchLenMinus(hi value) (int, bool) {
	s, ok := hi.(symInt)
	if !ok || r.lenT == nil {
		return 0, false
	}
	if s.t == r.lenT {
		return 0, true
	}
	if s.t.op == OpSub && s.t.args[0] == r.lenT && s.t.args[1].op == OpConst {
		return int(s.t.args[1].cval), true
	}
	if s.t.op == OpAdd && s.t.args[0] == r.lenT && s.t.args[1].op == OpConst {
		return int(-int64(s.t.args[1].cval)), true
	}
	return 0, false
}

func (r *rope) slice(fr *frame, lo, hi value) value {
	px := fr.i.px
	if r.hasOnlyFixed() {
		at := r.atoms(px)
		l, h := int64(0), int64(len(at))
		if lo != nil {
			l = fr.concretizeLen(lo, "string slice")
		}
		if hi != nil {
			h = fr.concretizeLen(hi, "string slice")
		}
		if h < 0 || h > int64(len(at)) || l < 0 || l > h {
			goPanic(fmt.Sprintf("runtime error: slice bounds out of range [%d:%d] with length %d", l, h, len(at)))
		}
		return mkRope([]ropePart{{kind: rkBytes, bytes: at[l:h]}})
	}
	parts := append([]ropePart{}, r.parts...)
	// trailing cut
	if hi != nil {
		c, ok := r.matchLenMinus(hi)
		if !ok {
			if hc, isInt := hi.(int); isInt {
				// concrete hi: must fall inside the fixed-width prefix
				pos := 0
				var np []ropePart
				done := false
				for _, p := range parts {
					w := -1
					switch p.kind {
					case rkLit:
						w = len(p.lit)
					case rkBytes:
						w = len(p.bytes)
					}
					if w < 0 {
						break
					}
					if hc <= pos+w {
						if p.kind == rkLit {
							np = append(np, ropePart{kind: rkLit, lit: p.lit[:hc-pos]})
						} else {
							np = append(np, ropePart{kind: rkBytes, bytes: p.bytes[:hc-pos]})
						}
						done = true
						break
					}
					np = append(np, p)
					pos += w
				}
				if !done {
					px.abort("unsupported", "rope slice: concrete high bound beyond fixed prefix")
				}
				parts = np
			} else {
				px.abort("unsupported", "rope slice: high bound is not len(s)-c")
			}
		} else {
			for c > 0 {
				if len(parts) == 0 {
					goPanic("runtime error: slice bounds out of range")
				}
				p := &parts[len(parts)-1]
				switch p.kind {
				case rkLit:
					if len(p.lit) > c {
						parts[len(parts)-1] = ropePart{kind: rkLit, lit: p.lit[:len(p.lit)-c]}
						c = 0
					} else {
						c -= len(p.lit)
						parts = parts[:len(parts)-1]
					}
				case rkBytes:
					if len(p.bytes) > c {
						parts[len(parts)-1] = ropePart{kind: rkBytes, bytes: p.bytes[:len(p.bytes)-c]}
						c = 0
					} else {
						c -= len(p.bytes)
						parts = parts[:len(parts)-1]
					}
				default:
					px.abort("unsupported", "rope slice: cut inside a number part")
				}
			}
			if c < 0 {
				goPanic("runtime error: slice bounds out of range")
			}
		}
	}
	if lo != nil {
		lc, ok := lo.(int)
		if !ok {
			px.abort("unsupported", "rope slice: symbolic low bound")
		}
		for lc > 0 {
			if len(parts) == 0 {
				goPanic("runtime error: slice bounds out of range")
			}
			p := parts[0]
			switch p.kind {
			case rkLit:
				if len(p.lit) > lc {
					parts[0] = ropePart{kind: rkLit, lit: p.lit[lc:]}
					lc = 0
				} else {
					lc -= len(p.lit)
					parts = parts[1:]
				}
			case rkBytes:
				if len(p.bytes) > lc {
					parts[0] = ropePart{kind: rkBytes, bytes: p.bytes[lc:]}
					lc = 0
				} else {
					lc -= len(p.bytes)
					parts = parts[1:]
				}
			default:
				px.abort("unsupported", "rope slice: low cut inside a number part")
			}
		}
	}
	return mkRope(parts)
}

func (r *rope) toBytes(fr *frame) []value {
	if r.hasOnlyFixed() {
		var out []value
		for _, p := range r.parts {
			switch p.kind {
			case rkLit:
				for i := 0; i < len(p.lit); i++ {
					out = append(out, p.lit[i])
				}
			case rkBytes:
				for _, t := range p.bytes {
					out = append(out, wrapInt(t, types.Uint8))
				}
			}
		}
		return out
	}
	px := fr.i.px
	if !r.hasOnlyFixed() {
		s := r.concretizeString(fr)
		out := make([]value, len(s))
		for i := 0; i < len(s); i++ {
			out[i] = s[i]
		}
		return out
	}
	at := r.atoms(px)
	out := make([]value, len(at))
	for i, t := range at {
		out[i] = wrapInt(t, types.Uint8)
	}
	return out
}

func (r *rope) conv(fr *frame, t_dst types.Type) value {
	switch ud := t_dst.Underlying().(type) {
	case *types.Basic:
		if ud.Kind() == types.String {
			return r
		}
	case *types.Slice:
		switch ud.Elem().Underlying().(*types.Basic).Kind() {
		case types.Byte:
			return r.toBytes(fr)
		case types.Rune:
			s := r.concretizeString(fr)
			var res []value
			for _, c := range s {
				res = append(res, c)
			}
			return res
		}
	}
	fr.i.px.abort("unsupported", "rope conversion to %s", t_dst)
	return nil
}

// concretizeString forks until the rope has one concrete value.  Number
// parts are concretised by model enumeration (bounded), bytes likewise.
func (r *rope) concretizeString(fr *frame) string {
	var sb strings.Builder
	for _, p := range r.parts {
		switch p.kind {
		case rkLit:
			sb.WriteString(p.lit)
		case rkNum:
			v := fr.enumerate(symInt{p.num, types.Int64}, 24)
			sb.WriteString(strconv.FormatInt(v, 10))
		case rkBytes:
			for _, b := range p.bytes {
				if b.op == OpConst {
					sb.WriteByte(byte(b.cval))
					continue
				}
				v := fr.enumerate(symInt{b, types.Uint8}, 256)
				sb.WriteByte(byte(v))
			}
		default:
			fr.i.px.abort("unsupported", "concretising opaque rope")
		}
	}
	return sb.String()
}

// ropeShapeEq: equality of two string-like values as a (symbolic) bool.
func ropeEq(fr *frame, x, y value) value {
	px := fr.i.px
	a := &px.ar
	if ax, ok := strAtoms(px, x); ok {
		if ay, ok := strAtoms(px, y); ok {
			if len(ax) != len(ay) {
				return false
			}
			acc := tTrue
			for i := range ax {
				acc = a.And(acc, a.Eq(ax[i], ay[i]))
				if acc == tFalse {
					return false
				}
			}
			return wrapBool(acc)
		}
	}
	px2, py2 := partsOf(x), partsOf(y)
	if hasOpaque(px2) || hasOpaque(py2) {
		if len(px2) == len(py2) {
			same := true
			for i := range px2 {
				p, q := px2[i], py2[i]
				if p.kind != q.kind || (p.kind == rkLit && p.lit != q.lit) || (p.kind == rkOpaque && p.id != q.id) || (p.kind == rkNum && p.num != q.num) || p.kind == rkBytes {
					same = false
					break
				}
			}
			if same {
				return true
			}
		}
		// unknown text: both outcomes are explored (over-approximation)
		return symBool{px.newBoolSym("env", "opaque_eq")}
	}
	if len(px2) == len(py2) {
		same := true
		acc := tTrue
		for i := range px2 {
			p, q := px2[i], py2[i]
			if p.kind != q.kind {
				same = false
				break
			}
			switch p.kind {
			case rkLit:
				if p.lit != q.lit {
					// identical shape, different literal text: can still be
					// equal only through number parts absorbing text; with
					// digit-free difference this is false.
					if !digitFreeDiff(p.lit, q.lit) {
						same = false
					} else {
						return false
					}
				}
			case rkNum:
				acc = a.And(acc, a.Eq(p.num, q.num))
			case rkBytes:
				if len(p.bytes) != len(q.bytes) {
					same = false
				} else {
					for j := range p.bytes {
						acc = a.And(acc, a.Eq(p.bytes[j], q.bytes[j]))
					}
				}
			default:
				same = false
			}
			if !same {
				break
			}
		}
		if same {
			return wrapBool(acc)
		}
	}
	// Different shapes: compare token-wise (numbers vs literal digits).
	tx, okx := tokenize(px, px2)
	ty, oky := tokenize(px, py2)
	if okx && oky {
		if len(tx) != len(ty) {
			return false
		}
		acc := tTrue
		for i := range tx {
			p, q := tx[i], ty[i]
			if (p.num == nil) != (q.num == nil) {
				return false
			}
			if p.num == nil {
				if p.text != q.text {
					return false
				}
				continue
			}
			if p.noncanon || q.noncanon {
				if p.text == q.text && p.text != "" {
					continue
				}
				return false
			}
			acc = a.And(acc, a.Eq(p.num, q.num))
		}
		return wrapBool(acc)
	}
	// Shapes the tokenizer cannot align (a sign directly before a number
	// part, adjacent numbers): the outcome is left open, both are explored.
	px.approx++
	return symBool{px.newBoolSym("env", "rope_eq")}
}

func digitFreeDiff(p, q string) bool {
	// true if p and q differ at a position where neither has a digit or '-'
	n := len(p)
	if len(q) < n {
		n = len(q)
	}
	for i := 0; i < n; i++ {
		if p[i] != q[i] {
			return !isDigitOrMinus(p[i]) && !isDigitOrMinus(q[i])
		}
	}
	return false
}

func isDigitOrMinus(c byte) bool { return (c >= '0' && c <= '9') || c == '-' }

type strToken struct {
	text     string // non-number chunk, or literal digits
	num      *Term  // number token value (64-bit signed)
	noncanon bool   // literal digits that FormatInt never produces
}

// tokenize splits parts into number tokens and text chunks.  A '-' is a sign
// iff it directly precedes digits/number and does not directly follow a
// digit/number.  ok=false when a number part touches digits or a sign
// ambiguously.
func tokenize(px *pathCtx, parts []ropePart) ([]strToken, bool) {
	a := &px.ar
	var toks []strToken
	var chunk strings.Builder
	flush := func() {
		if chunk.Len() > 0 {
			toks = append(toks, strToken{text: chunk.String()})
			chunk.Reset()
		}
	}
	prevNum := false // previous atom was a digit or number part
	for pi, p := range parts {
		switch p.kind {
		case rkNum:
			if prevNum {
				return nil, false
			}
			// a '-' just before a number part is ambiguous unless it follows a number
			if s := chunk.String(); strings.HasSuffix(s, "-") {
				before := byte(0)
				if len(s) >= 2 {
					before = s[len(s)-2]
				}
				isAfterNum := len(s) == 1 && len(toks) > 0 && toks[len(toks)-1].num != nil
				if !isAfterNum && !(before >= '0' && before <= '9') {
					return nil, false
				}
			}
			flush()
			toks = append(toks, strToken{num: p.num})
			prevNum = true
			// next literal must not start with a digit
			if pi+1 < len(parts) && parts[pi+1].kind == rkLit {
				if c := parts[pi+1].lit[0]; c >= '0' && c <= '9' {
					return nil, false
				}
			}
		case rkLit:
			s := p.lit
			i := 0
			for i < len(s) {
				c := s[i]
				isDigit := c >= '0' && c <= '9'
				isSign := c == '-' && !prevNum && i+1 < len(s) && s[i+1] >= '1' && s[i+1] <= '9'
				if c == '-' && !prevNum && i+1 == len(s) && pi+1 < len(parts) && parts[pi+1].kind == rkNum {
					return nil, false
				}
				if isDigit || isSign {
					j := i + 1
					for j < len(s) && s[j] >= '0' && s[j] <= '9' {
						j++
					}
					if j == len(s) && pi+1 < len(parts) && parts[pi+1].kind == rkNum {
						return nil, false
					}
					lit := s[i:j]
					digits := lit
					if digits[0] == '-' {
						digits = digits[1:]
					}
					if len(digits) > 1 && digits[0] == '0' {
						// not a canonical decimal rendering: plain text
						chunk.WriteString(lit)
						prevNum = true
						i = j
						continue
					}
					flush()
					v, err := strconv.ParseInt(lit, 10, 64)
					tk := strToken{text: lit}
					if err != nil || strconv.FormatInt(v, 10) != lit {
						tk.noncanon = true
						tk.num = a.Const(64, 0)
					} else {
						tk.num = a.Const(64, uint64(v))
					}
					toks = append(toks, tk)
					prevNum = true
					i = j
					continue
				}
				chunk.WriteByte(c)
				prevNum = false
				i++
			}
		default:
			return nil, false
		}
	}
	flush()
	return toks, true
}

func ropeBinop(fr *frame, op token.Token, x, y value) value {
	px := fr.i.px
	switch op {
	case token.ADD:
		px.workUnits += int64(ropeMinLen(x) + ropeMinLen(y))
		return ropeConcat(x, y)
	case token.EQL:
		return ropeEq(fr, x, y)
	case token.NEQ:
		r := ropeEq(fr, x, y)
		if b, ok := r.(bool); ok {
			return !b
		}
		return wrapBool(px.ar.Not(r.(symBool).t))
	}
	// ordering: concretise
	sx, sy := concStr(fr, x), concStr(fr, y)
	switch op {
	case token.LSS:
		return sx < sy
	case token.LEQ:
		return sx <= sy
	case token.GTR:
		return sx > sy
	case token.GEQ:
		return sx >= sy
	}
	panic("ropeBinop " + op.String())
}

func ropeMinLen(v value) int {
	switch s := v.(type) {
	case string:
		return len(s)
	case *rope:
		n := 0
		for _, p := range s.parts {
			switch p.kind {
			case rkLit:
				n += len(p.lit)
			case rkBytes:
				n += len(p.bytes)
			default:
				n++
			}
		}
		return n
	}
	return 0
}

func concStr(fr *frame, v value) string {
	switch s := v.(type) {
	case string:
		return s
	case *rope:
		return s.concretizeString(fr)
	}
	panic(fmt.Sprintf("concStr %T", v))
}

var _ = utf8.RuneError

// ropeIter ranges over a string of symbolic bytes rune by rune, forking only
// on the UTF-8 length class of each position.
type ropeIter struct {
	fr *frame
	bs []value
	i  int
}

func (it *ropeIter) next() tuple {
	if it.i >= len(it.bs) {
		return tuple{false, nil, nil}
	}
	rn := decodeRuneSym(it.fr, it.bs[it.i:]).(tuple)
	pos := it.i
	it.i += rn[1].(int)
	return tuple{true, pos, rn[0]}
}

func bytesToRope(fr *frame, bs []value) value {
	return conv(fr, types.Typ[types.String], types.NewSlice(types.Typ[types.Byte]), bs)
}

func hasOpaque(ps []ropePart) bool {
	for _, p := range ps {
		if p.kind == rkOpaque {
			return true
		}
	}
	return false
}

// ropeBytes is a []byte whose content is a rope with parts of symbolic
// length (decimal renderings).  It supports what splice-style code does with
// byte buffers: slicing at concrete offsets inside the fixed-width prefix,
// conversion back to string, writing into a buffer.  Anything else
// materialises the bytes (which may end the path as unsupported).
type ropeBytes struct{ r value }

func mkRopeBytes(v value) value {
	switch s := v.(type) {
	case *rope:
		if s.hasOnlyFixed() {
			return s.toBytes(nil)
		}
		return ropeBytes{s}
	case string:
		out := make([]value, len(s))
		for i := 0; i < len(s); i++ {
			out[i] = s[i]
		}
		return out
	}
	panic("mkRopeBytes")
}

func (rb ropeBytes) materialize(fr *frame) []value {
	switch s := rb.r.(type) {
	case *rope:
		return s.toBytes(fr)
	case string:
		return mkRopeBytes(s).([]value)
	}
	return nil
}
