package interp

// Program loading, harness intrinsics and the worker loop.

import (
	"fmt"
	"go/token"
	"go/types"
	"os"
	"sort"
	"strconv"
	"strings"
	"sync"

	"golang.org/x/tools/go/packages"
	"golang.org/x/tools/go/ssa"
	"golang.org/x/tools/go/ssa/ssautil"
)

var InterpretedPkgs = []string{
	"golang.org/x/exp/rand", "unicode", "unicode/utf8", "errors", "strings", "bytes",
	"strconv", "sort", "math/bits", "encoding/binary", "slices", "cmp", "io", "bufio",
}

// LoadProgram loads repoDir (package ".") with the overlay and builds SSA.
func LoadProgram(repoDir string, overlay map[string][]byte, tags string) (*Program, error) {
	cfg := &packages.Config{
		Mode: packages.NeedName | packages.NeedFiles | packages.NeedCompiledGoFiles | packages.NeedImports |
			packages.NeedDeps | packages.NeedTypes | packages.NeedSyntax | packages.NeedTypesInfo | packages.NeedTypesSizes,
		Dir:        repoDir,
		Overlay:    overlay,
		BuildFlags: []string{"-tags=" + tags},
		Env:        append(os.Environ(), "GOFLAGS=-mod=mod", "GOPROXY=off", "GOSUMDB=off", "GOTOOLCHAIN=local"),
	}
	pkgs, err := packages.Load(cfg, ".")
	if err != nil {
		return nil, err
	}
	if len(pkgs) != 1 {
		return nil, fmt.Errorf("expected 1 package, got %d", len(pkgs))
	}
	var errs []string
	packages.Visit(pkgs, nil, func(p *packages.Package) {
		for _, e := range p.Errors {
			errs = append(errs, e.Error())
		}
	})
	if len(errs) > 0 {
		return nil, fmt.Errorf("load errors:\n%s", strings.Join(errs, "\n"))
	}
	prog, spkgs := ssautil.AllPackages(pkgs, ssa.InstantiateGenerics)
	main := spkgs[0]
	interp := map[string]bool{main.Pkg.Path(): true}
	for _, p := range InterpretedPkgs {
		interp[p] = true
	}
	for _, p := range prog.AllPackages() {
		if interp[p.Pkg.Path()] {
			p.Build()
		}
	}
	P := &Program{Prog: prog, Main: main, Sizes: pkgs[0].TypesSizes, Interpreted: interp}
	registerIntrinsics(main.Pkg.Path())
	return P, nil
}

// ---------------------------------------------------------------------
// intrinsics: functions of the harness runtime (package under test,
// file zz_verif_rt.go) whose bodies are replaced by the engine.

var intrinsicsOnce sync.Once

func registerIntrinsics(pkg string) {
	intrinsicsOnce.Do(func() {
		reg := func(name string, f externalFn) { externals[pkg+"."+name] = f }
		reg("vInt64", func(fr *frame, a []value) value {
			return symInt{fr.i.px.newSym("nondet", a[0].(string), 64), types.Int64}
		})
		reg("vUint64", func(fr *frame, a []value) value {
			return symInt{fr.i.px.newSym("nondet", a[0].(string), 64), types.Uint64}
		})
		reg("vInt", func(fr *frame, a []value) value {
			return symInt{fr.i.px.newSym("nondet", a[0].(string), 64), types.Int}
		})
		reg("vByte", func(fr *frame, a []value) value {
			return symInt{fr.i.px.newSym("nondet", a[0].(string), 8), types.Uint8}
		})
		reg("vBool", func(fr *frame, a []value) value {
			return symBool{fr.i.px.newBoolSym("nondet", a[0].(string))}
		})
		reg("vFloat64", func(fr *frame, a []value) value {
			return symFloat{fr.i.px.newFloatSym("nondet", a[0].(string))}
		})
		reg("vChoice", func(fr *frame, a []value) value {
			px := fr.i.px
			n := a[1].(int)
			if n <= 0 {
				px.abort("engine", "vChoice with n=%d", n)
			}
			s := symInt{px.newSym("nondet", a[0].(string), 64), types.Int}
			px.assume(px.ar.Cmp(OpUlt, s.t, px.ar.Const(64, uint64(n))))
			return int(fr.concretize(s, 0, int64(n-1)))
		})
		reg("vAssume", func(fr *frame, a []value) value {
			fr.i.px.assume(fr.i.px.boolTerm(a[0]))
			return nil
		})
		reg("vAssert", func(fr *frame, a []value) value {
			fr.i.px.vassert(fr.i.px.boolTerm(a[0]), a[1].(string), fr.caller)
			return nil
		})
		reg("vCheck", func(fr *frame, a []value) value {
			// like vAssert, but a concrete failure does not end the path
			px := fr.i.px
			c := px.boolTerm(a[0])
			if c.op == OpBoolConst {
				if c.cval == 0 && !px.replaying() {
					px.violation("assert", concStr(fr, a[1]), "check failed (concrete on this path)", fr.caller, nil)
				}
				return nil
			}
			px.vassert(c, concStr(fr, a[1]), fr.caller)
			return nil
		})
		reg("vFail", func(fr *frame, a []value) value {
			px := fr.i.px
			px.violation("assert", concStr(fr, a[0]), "vFail reached", fr.caller, nil)
			px.abort("assert-failed", "%s", concStr(fr, a[0]))
			return nil
		})
		reg("vReach", func(fr *frame, a []value) value {
			fr.i.px.reached = append(fr.i.px.reached, a[0].(string))
			return nil
		})
		reg("vNote", func(fr *frame, a []value) value {
			v := a[1]
			if it, ok := v.(iface); ok {
				v = it.v
			}
			fr.i.px.note(a[0].(string), ropeString(v))
			return nil
		})
		reg("vParam", func(fr *frame, a []value) value {
			if v, ok := fr.i.px.ex.Cfg.Params[a[0].(string)]; ok {
				return v
			}
			return a[1]
		})
		reg("vOr", func(fr *frame, a []value) value {
			px := fr.i.px
			return wrapBool(px.ar.Or(px.boolTerm(a[0]), px.boolTerm(a[1])))
		})
		reg("vAnd", func(fr *frame, a []value) value {
			px := fr.i.px
			return wrapBool(px.ar.And(px.boolTerm(a[0]), px.boolTerm(a[1])))
		})
		reg("vImplies", func(fr *frame, a []value) value {
			px := fr.i.px
			return wrapBool(px.ar.Or(px.ar.Not(px.boolTerm(a[0])), px.boolTerm(a[1])))
		})
		reg("vIteInt64", func(fr *frame, a []value) value {
			px := fr.i.px
			x, _ := px.intTerm(a[1])
			y, _ := px.intTerm(a[2])
			return wrapInt(px.ar.Ite(px.boolTerm(a[0]), x, y), types.Int64)
		})
		reg("vObserve", func(fr *frame, a []value) value {
			fr.i.px.obs = append(fr.i.px.obs, obsRec{a[0].(string), a[1]})
			return nil
		})
		reg("vSetMapOrder", func(fr *frame, a []value) value {
			fr.i.px.mapOrder = a[0].(int)
			return nil
		})
		reg("vJSONInt", func(fr *frame, a []value) value {
			if s, ok := a[0].(symInt); ok {
				return fr.i.px.jsonSentinel(s.t)
			}
			return strconv.FormatInt(a[0].(int64), 10)
		})
		reg("vFootprintBegin", func(fr *frame, a []value) value {
			fr.i.markShared()
			fr.i.px.sharedWrites = nil
			fr.i.px.sharedWriteNames = nil
			return nil
		})
		reg("vSharedWrites", func(fr *frame, a []value) value {
			return len(fr.i.px.sharedWrites)
		})
		reg("vSharedWriteNames", func(fr *frame, a []value) value {
			var names []string
			for n := range fr.i.px.sharedWriteNames {
				names = append(names, n)
			}
			sort.Strings(names)
			if len(fr.i.px.sharedWrites) > 0 {
				fr.i.px.note("shared-writes", strings.Join(fr.i.px.sharedWrites, "; "))
			}
			return strings.Join(names, ",")
		})
		reg("vConcurrently", func(fr *frame, a []value) value {
			return call(fr.i, fr, token.NoPos, a[0], nil)
		})
		reg("vSymbolic", func(fr *frame, a []value) value { return true })
		reg("vThreads2", extThreads2)
		reg("vClock", extClock)
		reg("vMaxDraws", func(fr *frame, a []value) value {
			fr.i.px.maxDraws = a[0].(int)
			return nil
		})
		reg("vDrawCount", func(fr *frame, a []value) value {
			n := 0
			for _, d := range fr.i.px.drawLog {
				if d.recv != nil {
					n++
				}
			}
			return n
		})
		reg("vDrawsFrom", func(fr *frame, a []value) value {
			src := a[0].(*value)
			n := 0
			for _, d := range fr.i.px.drawLog {
				if d.recv == src && d.recv != nil {
					n++
				}
			}
			return n
		})
		reg("vGlobalRandUses", func(fr *frame, a []value) value {
			n := 0
			for _, d := range fr.i.px.drawLog {
				if d.recv == nil {
					n++
				}
			}
			return n
		})
		reg("vDraw", func(fr *frame, a []value) value {
			// k-th draw value (as produced by the stubbed generator)
			k := a[0].(int)
			j := 0
			for _, d := range fr.i.px.drawLog {
				if d.recv != nil {
					if j == k {
						return symInt{d.sym, types.Uint64}
					}
					j++
				}
			}
			fr.i.px.abort("engine", "vDraw(%d): only %d draws", k, j)
			return nil
		})
		reg("vWork", func(fr *frame, a []value) value {
			return int64(fr.i.px.steps + fr.i.px.workUnits)
		})
		reg("vStrInts", func(fr *frame, a []value) value {
			toks, ok := tokenize(fr.i.px, partsOf(a[0]))
			if !ok {
				fr.i.px.abort("unsupported", "vStrInts: ambiguous number boundaries in %v", a[0])
			}
			var out []value
			for _, t := range toks {
				if t.num != nil {
					if t.noncanon {
						fr.i.px.abort("unsupported", "vStrInts: non-canonical literal number %q", t.text)
					}
					out = append(out, wrapInt(t.num, types.Int64))
				}
			}
			return out
		})
		reg("vStrSkel", func(fr *frame, a []value) value {
			toks, ok := tokenize(fr.i.px, partsOf(a[0]))
			if !ok {
				fr.i.px.abort("unsupported", "vStrSkel: ambiguous number boundaries in %v", a[0])
			}
			var sb strings.Builder
			for _, t := range toks {
				if t.num != nil {
					sb.WriteByte('#')
				} else {
					sb.WriteString(t.text)
				}
			}
			return sb.String()
		})
		reg("vConcretizeInt64", func(fr *frame, a []value) value {
			if s, ok := a[0].(symInt); ok {
				return fr.enumerate(s, a[1].(int))
			}
			return a[0]
		})
		reg("vConcretizeString", func(fr *frame, a []value) value {
			return concStr(fr, a[0])
		})
		reg("vSymBytes", func(fr *frame, a []value) value {
			// n fresh symbolic bytes as []byte
			n := a[1].(int)
			out := make([]value, n)
			for i := range out {
				out[i] = symInt{fr.i.px.newSym("nondet", fmt.Sprintf("%s%d", a[0].(string), i), 8), types.Uint8}
			}
			return out
		})
	})
}

func ropeString(v value) string {
	switch s := v.(type) {
	case string:
		return s
	case *rope:
		return s.String()
	}
	return fmt.Sprint(v)
}

// ---------------------------------------------------------------------

// runPath executes one path.
func (p *Program) runPath(ex *Explorer, sol *Solver, item workItem, fn *ssa.Function) (res *PathResult, px *pathCtx) {
	px = &pathCtx{ex: ex, prefix: item.prefix, sol: sol, funcs: map[string]bool{}}
	if item.model != nil {
		px.model, px.modelOK = item.model, true
	} else if len(item.prefix) == 0 {
		px.model, px.modelOK = Model{}, true
	}
	res = &PathResult{}
	i := newInterp(p)
	i.px = px
	sol.Push()
	defer func() {
		sol.Pop()
		res.Decisions = px.decisions
		res.Steps = px.steps
		res.Violations = px.viols
		r := recover()
		if r == nil {
			res.Status = "done"
			return
		}
		switch e := r.(type) {
		case pathAbort:
			res.Abort = &e
			res.Status = "abort:" + e.kind
		case targetPanic:
			// an uncaught Go panic escaped the harness
			msg := e.String()
			if it, ok := e.v.(iface); ok && it.t != nil {
				msg = panicValueString(i, it)
			}
			px.violation("panic", panicTag(msg), "panic: "+msg, nil, nil)
			res.Violations = px.viols
			res.Abort = &pathAbort{"panic", msg}
			res.Status = "violation"
		default:
			res.Abort = &pathAbort{"engine", fmt.Sprintf("%v", r)}
			res.Status = "abort:engine"
		}
	}()
	i.runInit(p)
	px.steps = 0
	px.workUnits = 0
	call(i, nil, token.NoPos, fn, nil)
	return
}

func panicTag(msg string) string {
	if i := strings.Index(msg, "["); i > 0 && strings.HasPrefix(msg, "runtime error: index out of range") {
		return "runtime error: index out of range"
	}
	if strings.HasPrefix(msg, "runtime error: slice bounds out of range") {
		return "runtime error: slice bounds out of range"
	}
	if len(msg) > 80 {
		msg = msg[:80]
	}
	return msg
}

func panicValueString(i *interpreter, it iface) string {
	switch v := it.v.(type) {
	case string:
		return v
	case *rope:
		return v.String()
	}
	// error value: call Error()
	ms := i.prog.MethodSets.MethodSet(it.t)
	for k := 0; k < ms.Len(); k++ {
		if ms.At(k).Obj().Name() == "Error" {
			fn := i.prog.MethodValue(ms.At(k))
			var out value
			func() {
				defer func() { recover() }()
				out = call(i, nil, token.NoPos, fn, []value{it.v})
			}()
			if out != nil {
				return ropeString(out)
			}
		}
	}
	return toString(it)
}

// Explore runs all paths of harness function name.
func (p *Program) Explore(name string, cfg *ExploreConfig) (*Explorer, error) {
	fn := p.Main.Func(name)
	if fn == nil {
		return nil, fmt.Errorf("no harness function %s", name)
	}
	ex := NewExplorer(name, cfg)
	ex.enqueue(workItem{})
	nw := cfg.Workers
	if nw <= 0 {
		nw = 1
	}
	var wg sync.WaitGroup
	for w := 0; w < nw; w++ {
		wg.Add(1)
		go func() {
			defer wg.Done()
			sol, err := NewSolver(cfg.Primary)
			if err != nil {
				fmt.Fprintln(os.Stderr, "solver:", err)
				return
			}
			defer func() { sol.Close() }()
			n := 0
			for {
				item, ok := ex.dequeue()
				if !ok {
					return
				}
				n++
				if n%400 == 0 || sol.dead {
					sol.Close()
					sol, err = NewSolver(cfg.Primary)
					if err != nil {
						fmt.Fprintln(os.Stderr, "solver:", err)
						return
					}
				}
				res, px := p.runPath(ex, sol, item, fn)
				if cfg.Trace {
					fmt.Fprintf(os.Stderr, "path %v -> %s (%d steps) %v\n", res.Decisions, res.Status, res.Steps, res.Abort)
				}
				ex.done(res, px)
			}
		}()
	}
	wg.Wait()
	return ex, nil
}

// HarnessNames lists functions of the main package with the given prefix.
func (p *Program) HarnessNames(prefix string) []string {
	var out []string
	for name, m := range p.Main.Members {
		if _, ok := m.(*ssa.Function); ok && strings.HasPrefix(name, prefix) {
			out = append(out, name)
		}
	}
	sort.Strings(out)
	return out
}
