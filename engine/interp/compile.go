package interp

// Pre-resolution of SSA operands to frame slots, so that the interpreter
// loop indexes a slice instead of hashing ssa.Values.

import (
	"fmt"

	"golang.org/x/tools/go/ssa"
)

type opKind uint8

const (
	opSlot   opKind = iota // frame slot
	opVal                  // immutable pre-evaluated value (basic constants, functions)
	opConst                // constant whose value must be built per use (aggregates)
	opGlobal               // address of a package-level variable
	opNil                  // absent optional operand
)

type opRef struct {
	kind opKind
	slot int32
	val  value
	c    *ssa.Const
	g    *ssa.Global
}

type pinstr struct {
	instr ssa.Instruction
	ops   []opRef
	dst   int32
}

type blockCode struct {
	instrs      []pinstr
	firstNonPhi int
	loopHead    bool
}

type fnCode struct {
	nslots    int
	slotOf    map[ssa.Value]int32
	paramSlot []int32
	freeSlot  []int32
	blocks    []blockCode
}

func (fr *frame) arg(pi *pinstr, k int) value {
	o := &pi.ops[k]
	switch o.kind {
	case opSlot:
		return fr.env[o.slot]
	case opVal:
		return o.val
	case opConst:
		return constValue(o.c)
	case opGlobal:
		if r, ok := fr.i.globals[o.g]; ok {
			return r
		}
		panic(fmt.Sprintf("no storage for global %s", o.g))
	}
	return nil
}

func compileFn(fn *ssa.Function) *fnCode {
	c := &fnCode{slotOf: map[ssa.Value]int32{}}
	add := func(v ssa.Value) int32 {
		s := int32(c.nslots)
		c.slotOf[v] = s
		c.nslots++
		return s
	}
	for _, p := range fn.Params {
		c.paramSlot = append(c.paramSlot, add(p))
	}
	for _, fv := range fn.FreeVars {
		c.freeSlot = append(c.freeSlot, add(fv))
	}
	for _, b := range fn.Blocks {
		for _, in := range b.Instrs {
			if v, ok := in.(ssa.Value); ok {
				add(v)
			}
		}
	}
	ref := func(v ssa.Value) opRef {
		switch k := v.(type) {
		case nil:
			return opRef{kind: opNil}
		case *ssa.Function:
			return opRef{kind: opVal, val: k}
		case *ssa.Builtin:
			return opRef{kind: opVal, val: k}
		case *ssa.Const:
			cv := constValue(k)
			switch cv.(type) {
			case bool, int, int8, int16, int32, int64, uint, uint8, uint16, uint32, uint64, uintptr, float32, float64, complex64, complex128, string:
				return opRef{kind: opVal, val: cv}
			}
			return opRef{kind: opConst, c: k}
		case *ssa.Global:
			return opRef{kind: opGlobal, g: k}
		}
		s, ok := c.slotOf[v]
		if !ok {
			panic(fmt.Sprintf("compileFn %s: no slot for %T %s", fn, v, v.Name()))
		}
		return opRef{kind: opSlot, slot: s}
	}
	c.blocks = make([]blockCode, len(fn.Blocks))
	for bi, b := range fn.Blocks {
		bc := &c.blocks[bi]
		bc.firstNonPhi = -1
		for _, p := range b.Preds {
			if b.Dominates(p) {
				bc.loopHead = true
			}
		}
		for k, in := range b.Instrs {
			pi := pinstr{instr: in, dst: -1}
			if v, ok := in.(ssa.Value); ok {
				pi.dst = c.slotOf[v]
			}
			if _, isPhi := in.(*ssa.Phi); !isPhi && bc.firstNonPhi < 0 {
				bc.firstNonPhi = k
			}
			var vals []ssa.Value
			switch x := in.(type) {
			case *ssa.Phi:
				vals = x.Edges
			case *ssa.UnOp:
				vals = []ssa.Value{x.X}
			case *ssa.BinOp:
				vals = []ssa.Value{x.X, x.Y}
			case *ssa.Call:
				vals = append([]ssa.Value{x.Call.Value}, x.Call.Args...)
			case *ssa.Defer:
				vals = append([]ssa.Value{x.Call.Value}, x.Call.Args...)
			case *ssa.Go:
				vals = append([]ssa.Value{x.Call.Value}, x.Call.Args...)
			case *ssa.ChangeInterface:
				vals = []ssa.Value{x.X}
			case *ssa.ChangeType:
				vals = []ssa.Value{x.X}
			case *ssa.Convert:
				vals = []ssa.Value{x.X}
			case *ssa.SliceToArrayPointer:
				vals = []ssa.Value{x.X}
			case *ssa.MakeInterface:
				vals = []ssa.Value{x.X}
			case *ssa.Extract:
				vals = []ssa.Value{x.Tuple}
			case *ssa.Slice:
				vals = []ssa.Value{x.X, x.Low, x.High, x.Max}
			case *ssa.Return:
				vals = x.Results
			case *ssa.Panic:
				vals = []ssa.Value{x.X}
			case *ssa.Store:
				vals = []ssa.Value{x.Addr, x.Val}
			case *ssa.If:
				vals = []ssa.Value{x.Cond}
			case *ssa.MakeSlice:
				vals = []ssa.Value{x.Len, x.Cap}
			case *ssa.Range:
				vals = []ssa.Value{x.X}
			case *ssa.Next:
				vals = []ssa.Value{x.Iter}
			case *ssa.FieldAddr:
				vals = []ssa.Value{x.X}
			case *ssa.Field:
				vals = []ssa.Value{x.X}
			case *ssa.IndexAddr:
				vals = []ssa.Value{x.X, x.Index}
			case *ssa.Index:
				vals = []ssa.Value{x.X, x.Index}
			case *ssa.Lookup:
				vals = []ssa.Value{x.X, x.Index}
			case *ssa.MapUpdate:
				vals = []ssa.Value{x.Map, x.Key, x.Value}
			case *ssa.TypeAssert:
				vals = []ssa.Value{x.X}
			case *ssa.MakeClosure:
				vals = x.Bindings
			}
			pi.ops = make([]opRef, len(vals))
			for j, v := range vals {
				pi.ops[j] = ref(v)
			}
			bc.instrs = append(bc.instrs, pi)
		}
		if bc.firstNonPhi < 0 {
			bc.firstNonPhi = len(b.Instrs)
		}
	}
	return c
}
