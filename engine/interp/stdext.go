package interp

// Models of standard-library pieces that a refactoring of the code under test
// may start to use and that cannot be interpreted from source (runtime
// internals, unsafe tricks): strings.Builder, fmt.Fprint*, typed atomics,
// sync.Once / WaitGroup, a few internal helpers.  harness/zz_verif_smoke_std.go
// compares each of them with the native build on every `-p SMOKE -tier std` run.

import (
	"bytes"
	"fmt"
	"go/token"
	"go/types"
	"math"
	"regexp"
	"strings"
	"unicode/utf8"
	"unsafe"

	"golang.org/x/tools/go/ssa"
)

func init() {
	for k, v := range map[string]externalFn{
		"fmt.Sprintln":            extSprintln,
		"fmt.Fprintf":             extFprintf,
		"fmt.Fprint":              extFprint,
		"fmt.Fprintln":            extFprintln,
		"fmt.Appendf":             extAppendf,
		"errors.Unwrap":           nil, // interpreted
		"(*fmt.wrapError).Error":  func(fr *frame, a []value) value { return (*a[0].(*value)).(structure)[0] },
		"(*fmt.wrapError).Unwrap": func(fr *frame, a []value) value { return (*a[0].(*value)).(structure)[1] },

		"(*strings.Builder).Cap": extBuilderLen,

		"strings.Compare":                extStringsCompare,
		"internal/bytealg.CompareString": extStringsCompare,
		"internal/stringslite.Clone":     func(fr *frame, a []value) value { return a[0] },
		"strings.Clone":                  func(fr *frame, a []value) value { return a[0] },
		"(*sync.Once).Do":                extOnceDo,
		"(*sync.WaitGroup).Add":          func(fr *frame, a []value) value { return nil },
		"(*sync.WaitGroup).Done":         func(fr *frame, a []value) value { return nil },
		"(*sync.WaitGroup).Wait":         func(fr *frame, a []value) value { return nil },
	} {
		if v != nil {
			externals[k] = v
		}
	}
	for _, t := range []string{"Int32", "Int64", "Uint32", "Uint64", "Uintptr"} {
		p := "(*sync/atomic." + t + ")."
		externals[p+"Load"] = extTypedAtomicLoad
		externals[p+"Store"] = extTypedAtomicStore
		externals[p+"Swap"] = extTypedAtomicSwap
		externals[p+"CompareAndSwap"] = extTypedAtomicCAS
		externals[p+"Add"] = extTypedAtomicAdd
	}
	p := "(*sync/atomic.Bool)."
	externals[p+"Load"] = func(fr *frame, a []value) value { return asInt64(extTypedAtomicLoad(fr, a)) != 0 }
	externals[p+"Store"] = func(fr *frame, a []value) value {
		return extTypedAtomicStore(fr, []value{a[0], b2u32(a[1].(bool))})
	}
	externals[p+"Swap"] = func(fr *frame, a []value) value {
		return asInt64(extTypedAtomicSwap(fr, []value{a[0], b2u32(a[1].(bool))})) != 0
	}
	externals[p+"CompareAndSwap"] = func(fr *frame, a []value) value {
		return extTypedAtomicCAS(fr, []value{a[0], b2u32(a[1].(bool)), b2u32(a[2].(bool))})
	}
}

func b2u32(b bool) value {
	if b {
		return uint32(1)
	}
	return uint32(0)
}

// genericExternal resolves methods of instantiated generic types by pattern.
func genericExternal(name string) externalFn {
	if strings.HasPrefix(name, "(*sync/atomic.Pointer[") {
		switch name[strings.LastIndex(name, ".")+1:] {
		case "Load":
			return func(fr *frame, a []value) value {
				v := extTypedAtomicLoad(fr, a)
				if u, ok := v.(unsafe.Pointer); ok {
					return (*value)(u)
				}
				return v
			}
		case "Store":
			return extTypedAtomicStore
		case "Swap":
			return func(fr *frame, a []value) value {
				v := extTypedAtomicSwap(fr, a)
				if u, ok := v.(unsafe.Pointer); ok {
					return (*value)(u)
				}
				return v
			}
		case "CompareAndSwap":
			return func(fr *frame, a []value) value {
				cell := typedAtomicCell(fr, a[0])
				cur := *cell
				if u, ok := cur.(unsafe.Pointer); ok {
					cur = (*value)(u)
				}
				if cur.(*value) == a[1].(*value) {
					*cell = a[2]
					if fr.i.shared != nil {
						fr.i.publish(cell)
					}
					return true
				}
				return false
			}
		}
	}
	return nil
}

// typedAtomicCell: the value field (the last one) of atomic.Int64 & co.
func typedAtomicCell(fr *frame, recv value) *value {
	p := recv.(*value)
	if p == nil {
		derefNil(fr)
	}
	fr.i.px.syncPoint(fr, nil)
	st := (*p).(structure)
	return &st[len(st)-1]
}

func extTypedAtomicLoad(fr *frame, a []value) value { return *typedAtomicCell(fr, a[0]) }

func extTypedAtomicStore(fr *frame, a []value) value {
	c := typedAtomicCell(fr, a[0])
	*c = a[1]
	if fr.i.shared != nil {
		fr.i.publish(c)
	}
	return nil
}

func extTypedAtomicSwap(fr *frame, a []value) value {
	c := typedAtomicCell(fr, a[0])
	old := *c
	*c = a[1]
	if fr.i.shared != nil {
		fr.i.publish(c)
	}
	return old
}

func extTypedAtomicCAS(fr *frame, a []value) value {
	c := typedAtomicCell(fr, a[0])
	if _, sym := (*c).(symInt); sym {
		fr.i.px.abort("unsupported", "compare-and-swap on a symbolic cell")
	}
	if _, sym := a[1].(symInt); sym {
		fr.i.px.abort("unsupported", "compare-and-swap with a symbolic operand")
	}
	if *c == a[1] {
		*c = a[2]
		return true
	}
	return false
}

func extTypedAtomicAdd(fr *frame, a []value) value {
	c := typedAtomicCell(fr, a[0])
	sum := binop(fr, token.ADD, nil, *c, a[1])
	*c = sum
	return sum
}

func extOnceDo(fr *frame, a []value) value {
	p := a[0].(*value)
	if p == nil {
		derefNil(fr)
	}
	fr.i.px.syncPoint(fr, nil)
	px := fr.i.px
	if px.onceDone == nil {
		px.onceDone = map[*value]bool{}
	}
	if px.onceDone[p] {
		return nil
	}
	px.onceDone[p] = true // as sync.Once: done even if f panics
	call(fr.i, fr, token.NoPos, a[1], nil)
	return nil
}

func extStringsCompare(fr *frame, a []value) value {
	x, y := concStr(fr, a[0]), concStr(fr, a[1])
	return strings.Compare(x, y)
}

func strLen(fr *frame, s value) value {
	switch x := s.(type) {
	case string:
		return len(x)
	case *rope:
		return x.length(fr)
	}
	return 0
}

// ---- fmt.Fprint* : format, then w.Write(bytes) through the interface ----

func writeTo(fr *frame, w value, s value) value {
	it, ok := w.(iface)
	if !ok || it.t == nil {
		derefNil(fr)
	}
	m := findMethod(fr, it.t, "Write")
	if m == nil {
		fr.i.px.abort("unsupported", "io.Writer without Write: %s", it.t)
	}
	r := call(fr.i, fr, token.NoPos, m, []value{it.v, mkRopeBytes(s)})
	if t, ok := r.(tuple); ok {
		return t
	}
	return tuple{0, iface{}}
}

func extFprintf(fr *frame, a []value) value {
	return writeTo(fr, a[0], sprintf(fr, concStr(fr, a[1]), a[2].([]value)))
}

func extFprint(fr *frame, a []value) value {
	return writeTo(fr, a[0], extSprint(fr, a[1:]))
}

func extFprintln(fr *frame, a []value) value {
	return writeTo(fr, a[0], extSprintln(fr, a[1:]))
}

func extAppendf(fr *frame, a []value) value {
	return appendFormatted(fr, a[0], sprintf(fr, concStr(fr, a[1]), a[2].([]value)))
}

func extSprintln(fr *frame, a []value) value {
	var parts []value
	for k, x := range a[0].([]value) {
		if k > 0 {
			parts = append(parts, " ")
		}
		parts = append(parts, stringOf(fr, x, 'v'))
	}
	parts = append(parts, "\n")
	return ropeConcat(parts...)
}

// isStringOperand: fmt.Sprint adds a space between operands when neither is
// a string.
func isStringOperand(v value) bool {
	it, ok := v.(iface)
	if !ok || it.t == nil {
		return false
	}
	b, ok := it.t.Underlying().(*types.Basic)
	return ok && b.Info()&types.IsString != 0
}

// wrapErrorf builds fmt's *wrapError for a format with one %w.
func (i *interpreter) wrapError(msg value, wrapped value) value {
	pkg := i.prog.ImportedPackage("fmt")
	if pkg == nil || pkg.Type("wrapError") == nil {
		return i.newError(msg)
	}
	t := pkg.Type("wrapError").Object().Type()
	var cell value = structure{msg, wrapped}
	return iface{t: ptrTo(t), v: &cell}
}

// fmtTyped renders %v / %+v of a composite operand using its static type
// (field names for %+v, & for a top-level pointer to struct).  ok=false leaves
// the operand to the untyped renderer.
func fmtTyped(fr *frame, T types.Type, v value, plus, top bool) (string, bool) {
	if T == nil {
		return "", false
	}
	switch u := T.Underlying().(type) {
	case *types.Struct:
		st, ok := v.(structure)
		if !ok || len(st) != u.NumFields() {
			return "", false
		}
		var sb strings.Builder
		sb.WriteString("{")
		for k := range st {
			if k > 0 {
				sb.WriteString(" ")
			}
			if plus {
				sb.WriteString(u.Field(k).Name() + ":")
			}
			s, ok := fmtTyped(fr, u.Field(k).Type(), st[k], plus, false)
			if !ok {
				return "", false
			}
			sb.WriteString(s)
		}
		sb.WriteString("}")
		return sb.String(), true
	case *types.Pointer:
		p, ok := v.(*value)
		if !ok || p == nil || !top {
			return "", false
		}
		if _, isStruct := u.Elem().Underlying().(*types.Struct); !isStruct {
			return "", false
		}
		s, ok := fmtTyped(fr, u.Elem(), *p, plus, false)
		return "&" + s, ok
	case *types.Slice:
		xs, ok := v.([]value)
		if !ok {
			return "", false
		}
		return fmtTypedList(fr, u.Elem(), xs, plus)
	case *types.Array:
		xs, ok := v.(array)
		if !ok {
			return "", false
		}
		return fmtTypedList(fr, u.Elem(), xs, plus)
	case *types.Basic:
		if g, ok := goValue(fr, v); ok {
			return fmt.Sprintf("%v", g), true
		}
	case *types.Interface:
		if it, ok := v.(iface); ok {
			if it.t == nil {
				return "<nil>", true
			}
			return fmtTyped(fr, it.t, it.v, plus, false)
		}
	}
	return "", false
}

func fmtTypedList(fr *frame, E types.Type, xs []value, plus bool) (string, bool) {
	var sb strings.Builder
	sb.WriteString("[")
	for k, x := range xs {
		if k > 0 {
			sb.WriteString(" ")
		}
		s, ok := fmtTyped(fr, E, x, plus, false)
		if !ok {
			return "", false
		}
		sb.WriteString(s)
	}
	sb.WriteString("]")
	return sb.String(), true
}

// ---- errors.Is / errors.As (the originals need reflectlite) ----

func unwrapErr(fr *frame, err iface) []iface {
	if err.t == nil {
		return nil
	}
	m := findMethod(fr, err.t, "Unwrap")
	if m == nil {
		return nil
	}
	r := call(fr.i, fr, token.NoPos, m, []value{err.v})
	switch x := r.(type) {
	case iface:
		if x.t == nil {
			return nil
		}
		return []iface{x}
	case []value:
		var out []iface
		for _, e := range x {
			if it, ok := e.(iface); ok && it.t != nil {
				out = append(out, it)
			}
		}
		return out
	}
	return nil
}

func extErrorsIs(fr *frame, a []value) value {
	err, target := a[0].(iface), a[1].(iface)
	if err.t == nil || target.t == nil {
		return err.t == nil && target.t == nil
	}
	return errorsIs(fr, err, target, 0)
}

func errorsIs(fr *frame, err, target iface, depth int) bool {
	if depth > 100 {
		fr.i.px.abort("unsupported", "errors.Is chain deeper than 100")
	}
	if types.Comparable(target.t) && types.Identical(err.t, target.t) && equals(err.t, err.v, target.v) {
		return true
	}
	if m := findMethod(fr, err.t, "Is"); m != nil {
		if b, ok := call(fr.i, fr, token.NoPos, m, []value{err.v, target}).(bool); ok && b {
			return true
		}
	}
	for _, u := range unwrapErr(fr, err) {
		if errorsIs(fr, u, target, depth+1) {
			return true
		}
	}
	return false
}

func extErrorsAs(fr *frame, a []value) value {
	err, target := a[0].(iface), a[1].(iface)
	if err.t == nil {
		return false
	}
	pt, ok := target.t.(*types.Pointer)
	if !ok || target.v.(*value) == nil {
		goPanic("errors: target must be a non-nil pointer")
	}
	return errorsAs(fr, err, pt.Elem(), target.v.(*value), 0)
}

func errorsAs(fr *frame, err iface, T types.Type, dst *value, depth int) bool {
	if depth > 100 {
		fr.i.px.abort("unsupported", "errors.As chain deeper than 100")
	}
	if types.AssignableTo(err.t, T) {
		if _, isIface := T.Underlying().(*types.Interface); isIface {
			*dst = err
		} else {
			*dst = err.v
		}
		return true
	}
	if m := findMethod(fr, err.t, "As"); m != nil {
		if b, ok := call(fr.i, fr, token.NoPos, m, []value{err.v, iface{t: ptrTo(T), v: dst}}).(bool); ok && b {
			return true
		}
	}
	for _, u := range unwrapErr(fr, err) {
		if errorsAs(fr, u, T, dst, depth+1) {
			return true
		}
	}
	return false
}

func extBytesIndex(fr *frame, a []value) value {
	return bytes.Index(bytesOfValue(fr, a[0]), bytesOfValue(fr, a[1]))
}

func init() {
	externals["errors.Is"] = extErrorsIs
	externals["errors.As"] = extErrorsAs
	externals["bytes.Index"] = extBytesIndex
}

// ---- more regexp, math, bytes.Buffer reads, runtime errors ----

func strSlice(xs []string) value {
	if xs == nil {
		return []value(nil)
	}
	out := make([]value, len(xs))
	for i, x := range xs {
		out[i] = x
	}
	return out
}

func math1(f func(float64) float64) externalFn {
	return func(fr *frame, a []value) value { return f(concF(fr, a[0])) }
}

func math2(f func(float64, float64) float64) externalFn {
	return func(fr *frame, a []value) value { return f(concF(fr, a[0]), concF(fr, a[1])) }
}

func bufTake(fr *frame, recv value, n int) string {
	slot := builderSlot(fr, recv)
	s := concStr(fr, builderGet(fr, slot))
	if n > len(s) {
		n = len(s)
	}
	*slot = s[n:]
	return s[:n]
}

func eofError(fr *frame) value {
	pkg := fr.i.prog.ImportedPackage("io")
	if pkg != nil {
		if g, ok := pkg.Members["EOF"].(*ssa.Global); ok {
			if cell, ok := fr.i.globals[g]; ok {
				if it, ok := (*cell).(iface); ok && it.t != nil {
					return it
				}
			}
		}
	}
	return fr.i.newError("EOF")
}

func init() {
	for k, v := range map[string]externalFn{
		"(*regexp.Regexp).FindStringSubmatch": func(fr *frame, a []value) value {
			return strSlice(getRegexp(fr, a[0]).FindStringSubmatch(concStr(fr, a[1])))
		},
		"(*regexp.Regexp).FindString": func(fr *frame, a []value) value {
			return getRegexp(fr, a[0]).FindString(concStr(fr, a[1]))
		},
		"(*regexp.Regexp).FindAllString": func(fr *frame, a []value) value {
			return strSlice(getRegexp(fr, a[0]).FindAllString(concStr(fr, a[1]), a[2].(int)))
		},
		"(*regexp.Regexp).FindStringIndex": func(fr *frame, a []value) value {
			loc := getRegexp(fr, a[0]).FindStringIndex(concStr(fr, a[1]))
			if loc == nil {
				return []value(nil)
			}
			return []value{loc[0], loc[1]}
		},
		"(*regexp.Regexp).ReplaceAllString": func(fr *frame, a []value) value {
			return getRegexp(fr, a[0]).ReplaceAllString(concStr(fr, a[1]), concStr(fr, a[2]))
		},
		"(*regexp.Regexp).ReplaceAllLiteralString": func(fr *frame, a []value) value {
			return getRegexp(fr, a[0]).ReplaceAllLiteralString(concStr(fr, a[1]), concStr(fr, a[2]))
		},
		"(*regexp.Regexp).Split": func(fr *frame, a []value) value {
			return strSlice(getRegexp(fr, a[0]).Split(concStr(fr, a[1]), a[2].(int)))
		},
		"(*regexp.Regexp).NumSubexp": func(fr *frame, a []value) value { return getRegexp(fr, a[0]).NumSubexp() },
		"(*regexp.Regexp).SubexpNames": func(fr *frame, a []value) value {
			return strSlice(getRegexp(fr, a[0]).SubexpNames())
		},
		"(*regexp.Regexp).Match": func(fr *frame, a []value) value {
			return getRegexp(fr, a[0]).Match(bytesOfValue(fr, a[1]))
		},
		"regexp.QuoteMeta": func(fr *frame, a []value) value { return regexp.QuoteMeta(concStr(fr, a[0])) },
		"regexp.MatchString": func(fr *frame, a []value) value {
			ok, err := regexp.MatchString(concStr(fr, a[0]), concStr(fr, a[1]))
			return tuple{ok, fr.i.strconvErr(fr, err)}
		},

		"math.Log2": math1(math.Log2), "math.Log10": math1(math.Log10), "math.Log1p": math1(math.Log1p),
		"math.Exp": math1(math.Exp), "math.Exp2": math1(math.Exp2), "math.Cbrt": math1(math.Cbrt),
		"math.Sin": math1(math.Sin), "math.Cos": math1(math.Cos), "math.Tan": math1(math.Tan),
		"math.Asin": math1(math.Asin), "math.Acos": math1(math.Acos), "math.Atan": math1(math.Atan),
		"math.Sinh": math1(math.Sinh), "math.Cosh": math1(math.Cosh), "math.Tanh": math1(math.Tanh),
		"math.RoundToEven": math1(math.RoundToEven),
		"math.Atan2":       math2(math.Atan2), "math.Hypot": math2(math.Hypot), "math.Max": math2(math.Max),
		"math.Min": math2(math.Min), "math.Remainder": math2(math.Remainder), "math.Copysign": math2(math.Copysign),
		"math.Dim":     math2(math.Dim),
		"math.Signbit": func(fr *frame, a []value) value { return math.Signbit(concF(fr, a[0])) },
		"math.Modf": func(fr *frame, a []value) value {
			i, f := math.Modf(concF(fr, a[0]))
			return tuple{i, f}
		},
		"math.Frexp": func(fr *frame, a []value) value {
			f, e := math.Frexp(concF(fr, a[0]))
			return tuple{f, e}
		},
		"math.Ldexp": func(fr *frame, a []value) value { return math.Ldexp(concF(fr, a[0]), a[1].(int)) },

		"(runtime.errorString).Error": func(fr *frame, a []value) value {
			return a[0] // the engine's run-time error texts are complete
		},
		"internal/bytealg.LastIndexByteString": func(fr *frame, a []value) value {
			return strings.LastIndexByte(concStr(fr, a[0]), a[1].(byte))
		},
		"internal/bytealg.LastIndexByte": func(fr *frame, a []value) value {
			return bytes.LastIndexByte(bytesOfValue(fr, a[0]), a[1].(byte))
		},

		"(*bytes.Buffer).Cap":       extBuilderLen,
		"(*bytes.Buffer).Available": func(fr *frame, a []value) value { return 0 },
		"(*bytes.Buffer).Truncate": func(fr *frame, a []value) value {
			slot := builderSlot(fr, a[0])
			s := concStr(fr, builderGet(fr, slot))
			n := a[1].(int)
			if n < 0 || n > len(s) {
				goPanic("bytes.Buffer: truncation out of range")
			}
			*slot = s[:n]
			return nil
		},
		"(*bytes.Buffer).Next": func(fr *frame, a []value) value {
			return mkRopeBytes(bufTake(fr, a[0], a[1].(int)))
		},
		"(*bytes.Buffer).ReadByte": func(fr *frame, a []value) value {
			s := bufTake(fr, a[0], 1)
			if s == "" {
				return tuple{byte(0), eofError(fr)}
			}
			return tuple{s[0], iface{}}
		},
		"(*bytes.Buffer).ReadRune": func(fr *frame, a []value) value {
			slot := builderSlot(fr, a[0])
			s := concStr(fr, builderGet(fr, slot))
			if s == "" {
				return tuple{rune(0), 0, eofError(fr)}
			}
			r, n := utf8.DecodeRuneInString(s)
			*slot = s[n:]
			return tuple{r, n, iface{}}
		},
		"(*bytes.Buffer).ReadString": func(fr *frame, a []value) value {
			slot := builderSlot(fr, a[0])
			s := concStr(fr, builderGet(fr, slot))
			k := strings.IndexByte(s, a[1].(byte))
			if k < 0 {
				*slot = ""
				return tuple{s, eofError(fr)}
			}
			*slot = s[k+1:]
			return tuple{s[:k+1], iface{}}
		},
		"(*bytes.Buffer).ReadBytes": func(fr *frame, a []value) value {
			slot := builderSlot(fr, a[0])
			s := concStr(fr, builderGet(fr, slot))
			k := strings.IndexByte(s, a[1].(byte))
			if k < 0 {
				*slot = ""
				return tuple{mkRopeBytes(s), eofError(fr)}
			}
			*slot = s[k+1:]
			return tuple{mkRopeBytes(s[:k+1]), iface{}}
		},
	} {
		externals[k] = v
	}
	// anything else on a modelled buffer would run real code over the model's
	// storage: refuse instead of computing nonsense
	for _, m := range []string{"AvailableBuffer", "Read", "ReadFrom", "UnreadByte", "UnreadRune", "WriteTo"} {
		m := m
		externals["(*bytes.Buffer)."+m] = func(fr *frame, a []value) value {
			fr.i.px.abort("unsupported", "bytes.Buffer.%s is not modelled", m)
			return nil
		}
	}
}
