package interp

// sync.Map as an insertion-ordered association list kept per path (the real
// implementation is built on runtime internals the interpreter cannot run).
// All operations are synchronisation points and are themselves synchronised;
// in footprint mode a value stored into a shared sync.Map becomes shared.

import (
	"go/token"
	"go/types"
)

type syncMapEnt struct{ k, v value }

type syncMapState struct{ ents []syncMapEnt }

func (px *pathCtx) syncMapOf(fr *frame, recv value) (*syncMapState, *value) {
	p := recv.(*value)
	if p == nil {
		derefNil(fr)
	}
	if px.syncMaps == nil {
		px.syncMaps = map[*value]*syncMapState{}
	}
	st := px.syncMaps[p]
	if st == nil {
		st = &syncMapState{}
		px.syncMaps[p] = st
	}
	px.syncPoint(fr, nil)
	return st, p
}

func anyEq(fr *frame, a, b value) bool {
	x, ok1 := a.(iface)
	y, ok2 := b.(iface)
	if !ok1 || !ok2 {
		fr.i.px.abort("unsupported", "sync.Map key of kind %T", a)
	}
	if x.t == nil || y.t == nil {
		return x.t == nil && y.t == nil
	}
	if !types.Identical(x.t, y.t) {
		return false
	}
	switch x.v.(type) {
	case rope, symInt, symBool, symFloat:
		fr.i.px.abort("unsupported", "symbolic sync.Map key")
	}
	switch y.v.(type) {
	case rope, symInt, symBool, symFloat:
		fr.i.px.abort("unsupported", "symbolic sync.Map key")
	}
	return equals(x.t, x.v, y.v)
}

func (st *syncMapState) find(fr *frame, k value) int {
	for i := range st.ents {
		if anyEq(fr, st.ents[i].k, k) {
			return i
		}
	}
	return -1
}

func (i *interpreter) publishInto(p *value, vals ...value) {
	if i.shared == nil {
		return
	}
	if name, ok := i.shared[p]; ok {
		for _, v := range vals {
			i.walkShared(v, name, 1)
		}
	}
}

func extSyncMapLoad(fr *frame, args []value) value {
	st, _ := fr.i.px.syncMapOf(fr, args[0])
	if k := st.find(fr, args[1]); k >= 0 {
		return tuple{st.ents[k].v, true}
	}
	return tuple{iface{}, false}
}

func extSyncMapStore(fr *frame, args []value) value {
	st, p := fr.i.px.syncMapOf(fr, args[0])
	if k := st.find(fr, args[1]); k >= 0 {
		st.ents[k].v = args[2]
	} else {
		st.ents = append(st.ents, syncMapEnt{args[1], args[2]})
	}
	fr.i.publishInto(p, args[1], args[2])
	return nil
}

func extSyncMapLoadOrStore(fr *frame, args []value) value {
	st, p := fr.i.px.syncMapOf(fr, args[0])
	if k := st.find(fr, args[1]); k >= 0 {
		return tuple{st.ents[k].v, true}
	}
	st.ents = append(st.ents, syncMapEnt{args[1], args[2]})
	fr.i.publishInto(p, args[1], args[2])
	return tuple{args[2], false}
}

func extSyncMapSwap(fr *frame, args []value) value {
	st, p := fr.i.px.syncMapOf(fr, args[0])
	fr.i.publishInto(p, args[1], args[2])
	if k := st.find(fr, args[1]); k >= 0 {
		old := st.ents[k].v
		st.ents[k].v = args[2]
		return tuple{old, true}
	}
	st.ents = append(st.ents, syncMapEnt{args[1], args[2]})
	return tuple{iface{}, false}
}

func extSyncMapLoadAndDelete(fr *frame, args []value) value {
	st, _ := fr.i.px.syncMapOf(fr, args[0])
	if k := st.find(fr, args[1]); k >= 0 {
		old := st.ents[k].v
		st.ents = append(st.ents[:k:k], st.ents[k+1:]...)
		return tuple{old, true}
	}
	return tuple{iface{}, false}
}

func extSyncMapDelete(fr *frame, args []value) value {
	extSyncMapLoadAndDelete(fr, args)
	return nil
}

func extSyncMapClear(fr *frame, args []value) value {
	st, _ := fr.i.px.syncMapOf(fr, args[0])
	st.ents = nil
	return nil
}

func extSyncMapCompareAndSwap(fr *frame, args []value) value {
	st, p := fr.i.px.syncMapOf(fr, args[0])
	if k := st.find(fr, args[1]); k >= 0 && anyEq(fr, st.ents[k].v, args[2]) {
		st.ents[k].v = args[3]
		fr.i.publishInto(p, args[3])
		return true
	}
	return false
}

func extSyncMapCompareAndDelete(fr *frame, args []value) value {
	st, _ := fr.i.px.syncMapOf(fr, args[0])
	if k := st.find(fr, args[1]); k >= 0 && anyEq(fr, st.ents[k].v, args[2]) {
		st.ents = append(st.ents[:k:k], st.ents[k+1:]...)
		return true
	}
	return false
}

func extSyncMapRange(fr *frame, args []value) value {
	st, _ := fr.i.px.syncMapOf(fr, args[0])
	snap := append([]syncMapEnt(nil), st.ents...)
	for _, e := range snap {
		r := call(fr.i, fr, token.NoPos, args[1], []value{e.k, e.v})
		if b, ok := r.(bool); ok && !b {
			break
		}
	}
	return nil
}
