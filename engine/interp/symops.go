package interp

// Symbolic counterparts of the scalar operations in ops.go.

import (
	"fmt"
	"go/token"
	"go/types"
	"math"

	"golang.org/x/tools/go/ssa"
)

func mustDeref(t types.Type) types.Type {
	if ptr, ok := t.Underlying().(*types.Pointer); ok {
		return ptr.Elem()
	}
	if tp, ok := t.(*types.TypeParam); ok {
		_ = tp
	}
	panic(fmt.Sprintf("%v is not a pointer", t))
}

func isSym(v value) bool {
	switch v.(type) {
	case symInt, symBool, symFloat:
		return true
	}
	return false
}

// intKindOf returns the basic kind of a concrete integer value.
func intKindOf(v value) (types.BasicKind, uint64, bool) {
	switch x := v.(type) {
	case int:
		return types.Int, uint64(x), true
	case int8:
		return types.Int8, uint64(x), true
	case int16:
		return types.Int16, uint64(x), true
	case int32:
		return types.Int32, uint64(x), true
	case int64:
		return types.Int64, uint64(x), true
	case uint:
		return types.Uint, uint64(x), true
	case uint8:
		return types.Uint8, uint64(x), true
	case uint16:
		return types.Uint16, uint64(x), true
	case uint32:
		return types.Uint32, uint64(x), true
	case uint64:
		return types.Uint64, x, true
	case uintptr:
		return types.Uintptr, uint64(x), true
	}
	return 0, 0, false
}

// mkInt builds a concrete integer value of kind k from bits v.
func mkInt(k types.BasicKind, v uint64) value {
	switch k {
	case types.Int:
		return int(v)
	case types.Int8:
		return int8(v)
	case types.Int16:
		return int16(v)
	case types.Int32:
		return int32(v)
	case types.Int64:
		return int64(v)
	case types.Uint:
		return uint(v)
	case types.Uint8:
		return uint8(v)
	case types.Uint16:
		return uint16(v)
	case types.Uint32:
		return uint32(v)
	case types.Uint64:
		return uint64(v)
	case types.Uintptr:
		return uintptr(v)
	}
	panic(fmt.Sprintf("mkInt kind %v", k))
}

// wrapInt returns a concrete value if t is constant, else a symInt.
func wrapInt(t *Term, k types.BasicKind) value {
	if t.op == OpConst {
		return mkInt(k, uint64(sext64(t.cval, t.w)))
	}
	return symInt{t, k}
}

func wrapBool(t *Term) value {
	if t.op == OpBoolConst {
		return t.cval == 1
	}
	return symBool{t}
}

func wrapFloat(t *Term) value {
	if t.op == OpFConst {
		return math.Float64frombits(t.cval)
	}
	return symFloat{t}
}

// intTerm converts an integer value (concrete or symbolic) to a term.
func (px *pathCtx) intTerm(v value) (*Term, types.BasicKind) {
	if s, ok := v.(symInt); ok {
		return s.t, s.k
	}
	k, bits, ok := intKindOf(v)
	if !ok {
		panic(fmt.Sprintf("intTerm: %T", v))
	}
	return px.ar.Const(kindWidth(k), bits), k
}

func (px *pathCtx) boolTerm(v value) *Term {
	switch b := v.(type) {
	case bool:
		return px.ar.Bool(b)
	case symBool:
		return b.t
	}
	panic(fmt.Sprintf("boolTerm: %T", v))
}

func (px *pathCtx) floatTerm(v value) *Term {
	switch f := v.(type) {
	case float64:
		return px.ar.FConst(f)
	case float32:
		return px.ar.FConst(float64(f))
	case symFloat:
		return f.t
	}
	panic(fmt.Sprintf("floatTerm: %T", v))
}

func isFloaty(v value) bool {
	switch v.(type) {
	case float64, float32, symFloat:
		return true
	}
	return false
}

func symBinop(fr *frame, op token.Token, t types.Type, x, y value) value {
	px := fr.i.px
	a := &px.ar
	// booleans (==, != only)
	if _, ok := x.(symBool); ok || isBoolV(y) && isBoolV(x) {
		bx, by := px.boolTerm(x), px.boolTerm(y)
		switch op {
		case token.EQL:
			return wrapBool(a.Eq(bx, by))
		case token.NEQ:
			return wrapBool(a.Not(a.Eq(bx, by)))
		}
		panic("symBinop: bool op " + op.String())
	}
	if isBoolV(x) || isBoolV(y) {
		bx, by := px.boolTerm(x), px.boolTerm(y)
		switch op {
		case token.EQL:
			return wrapBool(a.Eq(bx, by))
		case token.NEQ:
			return wrapBool(a.Not(a.Eq(bx, by)))
		}
	}
	if isFloaty(x) || isFloaty(y) {
		fx, fy := px.floatTerm(x), px.floatTerm(y)
		mk := func(o Op) value { t := a.mk(o, 64, fx, fy); t.isF = true; return wrapFloat(t) }
		mkb := func(o Op, p, q *Term) *Term { return a.mk(o, 0, p, q) }
		switch op {
		case token.ADD:
			return mk(OpFAdd)
		case token.SUB:
			return mk(OpFSub)
		case token.MUL:
			return mk(OpFMul)
		case token.QUO:
			return mk(OpFDiv)
		case token.LSS:
			return wrapBool(mkb(OpFLt, fx, fy))
		case token.LEQ:
			return wrapBool(mkb(OpFLe, fx, fy))
		case token.GTR:
			return wrapBool(mkb(OpFLt, fy, fx))
		case token.GEQ:
			return wrapBool(mkb(OpFLe, fy, fx))
		case token.EQL:
			return wrapBool(mkb(OpFEq, fx, fy))
		case token.NEQ:
			return wrapBool(a.Not(mkb(OpFEq, fx, fy)))
		}
		panic("symBinop: float op " + op.String())
	}

	if op == token.SHL || op == token.SHR {
		tx, kx := px.intTerm(x)
		ty, ky := px.intTerm(y)
		if kindSigned(ky) {
			neg := a.Cmp(OpSlt, ty, a.Const(ty.w, 0))
			if px.forkBool(neg) {
				goPanic("runtime error: negative shift amount")
			}
		}
		w := tx.w
		// bring count to width w, saturating
		var cnt *Term
		var big *Term
		if ty.w > w {
			big = a.Not(a.Cmp(OpUlt, ty, a.Const(ty.w, uint64(w))))
			cnt = a.Trunc(ty, w)
		} else {
			cnt = a.ZExt(ty, w)
			big = a.Not(a.Cmp(OpUlt, cnt, a.Const(w, uint64(w))))
		}
		var r *Term
		switch {
		case op == token.SHL:
			r = a.Ite(big, a.Const(w, 0), a.Bin(OpShl, tx, cnt))
		case kindSigned(kx):
			r = a.Ite(big, a.Bin(OpAShr, tx, a.Const(w, uint64(w-1))), a.Bin(OpAShr, tx, cnt))
		default:
			r = a.Ite(big, a.Const(w, 0), a.Bin(OpLShr, tx, cnt))
		}
		return wrapInt(r, kx)
	}

	tx, kx := px.intTerm(x)
	ty, ky := px.intTerm(y)
	if tx.w != ty.w {
		panic(fmt.Sprintf("symBinop width mismatch %v %v (%s)", kx, ky, op))
	}
	k := kx
	sg := kindSigned(k)
	switch op {
	case token.ADD:
		return wrapInt(a.Bin(OpAdd, tx, ty), k)
	case token.SUB:
		return wrapInt(a.Bin(OpSub, tx, ty), k)
	case token.MUL:
		return wrapInt(a.Bin(OpMul, tx, ty), k)
	case token.QUO, token.REM:
		z := a.Eq(ty, a.Const(ty.w, 0))
		if px.forkBool(z) {
			goPanic("runtime error: integer divide by zero")
		}
		var o Op
		switch {
		case op == token.QUO && sg:
			o = OpSDiv
		case op == token.QUO:
			o = OpUDiv
		case sg:
			o = OpSRem
		default:
			o = OpURem
		}
		return wrapInt(a.Bin(o, tx, ty), k)
	case token.AND:
		return wrapInt(a.Bin(OpBAnd, tx, ty), k)
	case token.OR:
		return wrapInt(a.Bin(OpBOr, tx, ty), k)
	case token.XOR:
		return wrapInt(a.Bin(OpBXor, tx, ty), k)
	case token.AND_NOT:
		return wrapInt(a.Bin(OpBAnd, tx, a.Un(OpBNot, ty)), k)
	case token.EQL:
		return wrapBool(a.Eq(tx, ty))
	case token.NEQ:
		return wrapBool(a.Not(a.Eq(tx, ty)))
	case token.LSS:
		if sg {
			return wrapBool(a.Cmp(OpSlt, tx, ty))
		}
		return wrapBool(a.Cmp(OpUlt, tx, ty))
	case token.LEQ:
		if sg {
			return wrapBool(a.Cmp(OpSle, tx, ty))
		}
		return wrapBool(a.Cmp(OpUle, tx, ty))
	case token.GTR:
		if sg {
			return wrapBool(a.Cmp(OpSlt, ty, tx))
		}
		return wrapBool(a.Cmp(OpUlt, ty, tx))
	case token.GEQ:
		if sg {
			return wrapBool(a.Cmp(OpSle, ty, tx))
		}
		return wrapBool(a.Cmp(OpUle, ty, tx))
	}
	panic("symBinop: op " + op.String())
}

func isBoolV(v value) bool {
	switch v.(type) {
	case bool, symBool:
		return true
	}
	return false
}

func symUnop(fr *frame, instr *ssa.UnOp, x value) value {
	px := fr.i.px
	a := &px.ar
	switch instr.Op {
	case token.NOT:
		return wrapBool(a.Not(px.boolTerm(x)))
	case token.SUB:
		if f, ok := x.(symFloat); ok {
			t := a.mk(OpFNeg, 64, f.t)
			t.isF = true
			return wrapFloat(t)
		}
		t, k := px.intTerm(x)
		return wrapInt(a.Un(OpNeg, t), k)
	case token.XOR:
		t, k := px.intTerm(x)
		return wrapInt(a.Un(OpBNot, t), k)
	}
	panic("symUnop: " + instr.Op.String())
}

// symConv converts symbolic scalar x to basic kind dst.
func symConv(fr *frame, t_dst, t_src types.Type, x value) value {
	px := fr.i.px
	a := &px.ar
	ud, ok := t_dst.Underlying().(*types.Basic)
	if !ok {
		px.abort("unsupported", "conversion of symbolic %T to %s", x, t_dst)
	}
	dk := ud.Kind()
	switch x := x.(type) {
	case symInt:
		switch {
		case ud.Info()&types.IsInteger != 0:
			w := kindWidth(dk)
			var r *Term
			switch {
			case w < x.t.w:
				r = a.Trunc(x.t, w)
			case w == x.t.w:
				r = x.t
			case kindSigned(x.k):
				r = a.SExt(x.t, w)
			default:
				r = a.ZExt(x.t, w)
			}
			return wrapInt(r, normKind(dk))
		case dk == types.Float64 || dk == types.Float32:
			if dk == types.Float32 {
				px.abort("unsupported", "symbolic int -> float32")
			}
			o := OpFFromU
			if kindSigned(x.k) {
				o = OpFFromS
			}
			t := a.mk(o, 64, x.t)
			t.isF = true
			return wrapFloat(t)
		case dk == types.String:
			// string(rune) of a symbolic rune
			return ropeFromRune(fr, x)
		}
	case symFloat:
		switch {
		case dk == types.Float64:
			return x
		case ud.Info()&types.IsInteger != 0:
			w := kindWidth(dk)
			if !kindSigned(dk) {
				px.abort("unsupported", "symbolic float -> unsigned")
			}
			// Go: out-of-range conversion is implementation-defined; on amd64
			// CVTTSD2SQ returns MinInt64.  Model exactly that for 64 bits.
			t := a.mk(OpFToS, w, x.t)
			if w == 64 {
				lo := a.FConst(-9223372036854775808.0)
				hi := a.FConst(9223372036854775808.0)
				inRange := a.And(a.mk(OpFLe, 0, lo, x.t), a.mk(OpFLt, 0, x.t, hi))
				t = a.Ite(inRange, t, a.Const(64, 1<<63))
			}
			return wrapInt(t, normKind(dk))
		}
	case symBool:
		if dk == types.Bool {
			return x
		}
	}
	px.abort("unsupported", "conversion of symbolic %T to %s", x, t_dst)
	return nil
}

func normKind(k types.BasicKind) types.BasicKind {
	switch k {
	case types.UntypedInt:
		return types.Int
	case types.UntypedRune:
		return types.Int32
	}
	return k
}

// symEq returns the (possibly symbolic) equality of x and y at type t.
func symEq(fr *frame, t types.Type, x, y value) value {
	px := fr.i.px
	a := &px.ar
	switch xv := x.(type) {
	case symInt:
		tx, _ := px.intTerm(x)
		ty, _ := px.intTerm(y)
		return wrapBool(a.Eq(tx, ty))
	case symBool:
		return wrapBool(a.Eq(px.boolTerm(x), px.boolTerm(y)))
	case symFloat:
		return wrapBool(a.mk(OpFEq, 0, px.floatTerm(x), px.floatTerm(y)))
	case *rope:
		return ropeEq(fr, x, y)
	case string:
		if _, ok := y.(*rope); ok {
			return ropeEq(fr, x, y)
		}
	case structure:
		yv := y.(structure)
		tS := t.Underlying().(*types.Struct)
		acc := value(true)
		for i := range xv {
			if tS.Field(i).Name() == "_" {
				continue
			}
			acc = andV(fr, acc, symEq(fr, tS.Field(i).Type(), xv[i], yv[i]))
		}
		return acc
	case array:
		yv := y.(array)
		tE := t.Underlying().(*types.Array).Elem()
		acc := value(true)
		for i := range xv {
			acc = andV(fr, acc, symEq(fr, tE, xv[i], yv[i]))
		}
		return acc
	case iface:
		yv := y.(iface)
		if !sameType(xv.t, yv.t) {
			return false
		}
		if xv.t == nil {
			return true
		}
		return symEq(fr, xv.t, xv.v, yv.v)
	}
	if isSym(y) {
		return symEq(fr, t, y, x)
	}
	return equals(t, x, y)
}

func andV(fr *frame, x, y value) value {
	if b, ok := x.(bool); ok {
		if !b {
			return false
		}
		return y
	}
	if b, ok := y.(bool); ok {
		if !b {
			return false
		}
		return x
	}
	px := fr.i.px
	return wrapBool(px.ar.And(px.boolTerm(x), px.boolTerm(y)))
}

// containsSym reports whether a comparable value has symbolic parts.
func containsSym(v value) bool {
	switch v := v.(type) {
	case symInt, symBool, symFloat, *rope:
		return true
	case structure:
		for _, e := range v {
			if containsSym(e) {
				return true
			}
		}
	case array:
		for _, e := range v {
			if containsSym(e) {
				return true
			}
		}
	case iface:
		return containsSym(v.v)
	}
	return false
}

// concretizeIndex returns a concrete index in [0,n), forking on a symbolic
// index: first the bounds check (a Go panic site), then one branch per
// feasible value.
func (fr *frame) concretizeIndex(idx value, n int) int {
	s, ok := idx.(symInt)
	if !ok {
		i := asInt64(idx)
		if i < 0 || i >= int64(n) {
			goPanic(fmt.Sprintf("runtime error: index out of range [%d] with length %d", i, n))
		}
		return int(i)
	}
	px := fr.i.px
	a := &px.ar
	fr.noteSymBranch()
	var inb *Term
	if kindSigned(s.k) {
		inb = a.And(a.Cmp(OpSle, a.Const(s.t.w, 0), s.t), a.Cmp(OpSlt, s.t, a.Const(s.t.w, uint64(n))))
	} else {
		inb = a.Cmp(OpUlt, s.t, a.Const(s.t.w, uint64(n)))
	}
	if !px.forkBool(inb) {
		goPanic(fmt.Sprintf("runtime error: index out of range [symbolic] with length %d", n))
	}
	return int(fr.concretize(s, 0, int64(n)-1))
}

// concretize forks over the values of s within [lo,hi] (inclusive).
func (fr *frame) concretize(s symInt, lo, hi int64) int64 {
	px := fr.i.px
	a := &px.ar
	if hi-lo > 4096 {
		px.abort("unsupported", "concretisation range too large [%d,%d]", lo, hi)
	}
	conds := make([]*Term, 0, hi-lo+1)
	for v := lo; v <= hi; v++ {
		conds = append(conds, a.Eq(s.t, a.Const(s.t.w, uint64(v))))
	}
	k := px.fork(conds)
	return lo + int64(k)
}

// concretizeLen is used for make() sizes and slice bounds.
func (fr *frame) concretizeLen(v value, what string) int64 {
	s, ok := v.(symInt)
	if !ok {
		return asInt64(v)
	}
	px := fr.i.px
	a := &px.ar
	capN := int64(px.symLenCap())
	var inb *Term
	if kindSigned(s.k) {
		inb = a.And(a.Cmp(OpSle, a.Const(s.t.w, 0), s.t), a.Cmp(OpSle, s.t, a.Const(s.t.w, uint64(capN))))
	} else {
		inb = a.Cmp(OpUle, s.t, a.Const(s.t.w, uint64(capN)))
	}
	fr.noteSymBranch()
	if !px.forkBool(inb) {
		// negative or larger than the engine's symbolic-length cap
		if kindSigned(s.k) {
			neg := a.Cmp(OpSlt, s.t, a.Const(s.t.w, 0))
			if px.forkBool(neg) {
				return -1
			}
		}
		// huge: distinguish "too large for Go" from "engine cap"
		huge := a.Not(a.Cmp(OpUle, s.t, a.Const(s.t.w, uint64(maxAlloc))))
		if px.forkBool(huge) {
			return maxAlloc + 1
		}
		px.abort("lencap", "symbolic length above the harness cap %d (%s)", capN, what)
	}
	return fr.concretize(s, 0, capN)
}

func (px *pathCtx) symLenCap() int {
	if px.ex != nil && px.ex.Cfg.LenCap > 0 {
		return px.ex.Cfg.LenCap
	}
	return 8
}

// mapKey normalises a map key; symbolic keys are concretised.
func (fr *frame) mapKey(k value) value {
	switch kv := k.(type) {
	case symInt:
		return kv // lookups compare it with each present key (omap.findSym)
	case *rope:
		return kv // compared symbolically by omap.findSym
	case iface:
		if containsSym(kv.v) {
			if r, ok := kv.v.(*rope); ok {
				return iface{kv.t, r.concretizeString(fr)}
			}
			fr.i.px.abort("unsupported", "symbolic map key in interface")
		}
	}
	return k
}

// noteSymBranch enforces the unwind bound: the number of symbolic decisions
// taken in one block of one frame.
func (fr *frame) noteSymBranch() {
	if fr.symVisits == nil {
		fr.symVisits = map[*ssa.BasicBlock]int{}
	}
	fr.symVisits[fr.block]++
	px := fr.i.px
	lim := 64
	if px.ex != nil && px.ex.Cfg.Unwind > 0 {
		lim = px.ex.Cfg.Unwind
	}
	if fr.symVisits[fr.block] > lim {
		px.abort("unwind", "more than %d symbolic decisions in block %d of %s", lim, fr.block.Index, fr.fn)
	}
}

// Loop bookkeeping for pure-iteration subsumption.
//
// A loop iteration is *pure* when it executed no store, map update, defer or
// call other than the nondeterministic generator stub, and every phi of the
// loop head either kept its value or received a fresh symbol created during
// that iteration.  After two consecutive pure iterations the state at the
// head equals the state one iteration earlier up to renaming of that fresh
// symbol (SSA values defined outside the loop are unchanged, the heap is
// unchanged, the path condition grew only by constraints on the symbol that
// was just replaced), so every continuation is already covered by the
// exploration from the previous arrival: the path is cut as "subsumed".
// This is the one-step inductive treatment of rejection-sampling loops.
type loopState struct {
	impure  bool
	nsyms   int
	pureRun int
	phiVals []value
}

func (i *interpreter) isLoopHead(b *ssa.BasicBlock) bool {
	fn := b.Parent()
	if !i.loopHeadsDone[fn] {
		if i.loopHeads == nil {
			i.loopHeads = map[*ssa.BasicBlock]bool{}
			i.loopHeadsDone = map[*ssa.Function]bool{}
		}
		i.loopHeadsDone[fn] = true
		for _, blk := range fn.Blocks {
			for _, p := range blk.Preds {
				if blk.Dominates(p) {
					i.loopHeads[blk] = true
				}
			}
		}
	}
	return i.loopHeads[b]
}

func (fr *frame) loopArrive() {
	px := fr.i.px
	if fr.loopIter == nil {
		fr.loopIter = map[*ssa.BasicBlock]*loopState{}
	}
	ls := fr.loopIter[fr.block]
	var phis []value
	for _, instr := range fr.block.Instrs {
		phi, ok := instr.(*ssa.Phi)
		if !ok {
			break
		}
		phis = append(phis, fr.env[fr.code.slotOf[phi]])
	}
	back := fr.prevBlock != nil && fr.block.Dominates(fr.prevBlock)
	if ls == nil || !back {
		fr.loopIter[fr.block] = &loopState{nsyms: len(px.syms), phiVals: phis}
		return
	}
	pure := !ls.impure && len(phis) == len(ls.phiVals) && len(phis) > 0
	fresh := 0
	if pure {
		for k, v := range phis {
			if sameScalar(v, ls.phiVals[k]) {
				continue
			}
			fresh++
			s, ok := v.(symInt)
			if !ok || s.t.op != OpVar {
				pure = false
				break
			}
			idx, ok := px.symIndex(s.t)
			if !ok || idx < ls.nsyms {
				pure = false
				break
			}
		}
	}
	// (an iteration that changes nothing at all is a genuine endless loop, not
	// a subsumed one: it is left to the step limit)
	if pure && fresh > 0 {
		ls.pureRun++
	} else {
		ls.pureRun = 0
	}
	if ls.pureRun >= 2 {
		pos := fr.fn.Prog.Fset.Position(fr.block.Instrs[len(fr.block.Instrs)-1].Pos())
		px.abort("subsumed", "loop at %s:%d cut after two pure iterations (inductive)", shortFile(pos.Filename), pos.Line)
	}
	ls.impure = false
	ls.nsyms = len(px.syms)
	ls.phiVals = phis
}

func sameScalar(a, b value) bool {
	switch x := a.(type) {
	case symInt:
		y, ok := b.(symInt)
		return ok && x.t == y.t
	case symBool:
		y, ok := b.(symBool)
		return ok && x.t == y.t
	case bool, int, int8, int16, int32, int64, uint, uint8, uint16, uint32, uint64, uintptr, string, float64:
		return a == b
	case *value:
		y, ok := b.(*value)
		return ok && x == y
	}
	return false
}

func (px *pathCtx) symIndex(t *Term) (int, bool) {
	for i := len(px.syms) - 1; i >= 0; i-- {
		if px.syms[i].Name == t.name {
			return i, true
		}
	}
	return 0, false
}

func (fr *frame) markImpure(instr ssa.Instruction) {
	imp := false
	switch in := instr.(type) {
	case *ssa.Store, *ssa.MapUpdate, *ssa.Defer, *ssa.RunDefers, *ssa.Go, *ssa.Send, *ssa.Panic, *ssa.Next, *ssa.Select:
		// (Next advances a range iterator: state that no phi shows)
		imp = true
	case *ssa.UnOp:
		if in.Op == token.ARROW {
			imp = true
		}
	case *ssa.Call:
		imp = true
		if c := in.Call.StaticCallee(); c != nil && fnMetaOf(c).name == "(*golang.org/x/exp/rand.PCGSource).Uint64" {
			imp = false
		}
	}
	if imp {
		for _, ls := range fr.loopIter {
			ls.impure = true
		}
		// callers' loops are impure as well
		for f := fr.caller; f != nil; f = f.caller {
			for _, ls := range f.loopIter {
				ls.impure = true
			}
		}
	}
}

// havocCall: opaque stub for overridden functions (havoc mode).
func havocCall(fr *frame, fn *ssa.Function, args []value) value {
	px := fr.i.px
	res := fn.Signature.Results()
	mk := func(t types.Type) value {
		if types.Identical(t, types.Universe.Lookup("error").Type()) {
			return fr.i.newError("<overridden " + fn.Name() + ">")
		}
		switch u := t.Underlying().(type) {
		case *types.Basic:
			switch {
			case u.Kind() == types.Bool:
				return symBool{px.newBoolSym("env", "havoc_"+fn.Name())}
			case u.Info()&types.IsInteger != 0:
				return symInt{px.newSym("env", "havoc_"+fn.Name(), kindWidth(u.Kind())), normKind(u.Kind())}
			}
		}
		return zero(t)
	}
	switch res.Len() {
	case 0:
		return nil
	case 1:
		return mk(res.At(0).Type())
	}
	tup := make(tuple, res.Len())
	for i := range tup {
		tup[i] = mk(res.At(i).Type())
	}
	return tup
}
