package interp

// Externals: every call whose callee is outside the interpreted package set
// goes through this table (native implementation on concrete arguments, a
// contract on symbolic ones), or ends the path as MISSING-EXTERNAL.

import (
	"fmt"
	"go/token"
	"go/types"
	"math"
	"math/bits"
	"regexp"
	"sort"
	"strconv"
	"strings"
	"sync"
	"unicode/utf8"
	"unsafe"

	"golang.org/x/tools/go/ssa"
)

type externalFn func(fr *frame, args []value) value

var externals = make(map[string]externalFn)

// ExternalsUsed lists table entries by name (for the evidence file).
func ExternalNames() []string {
	var out []string
	for k := range externals {
		out = append(out, k)
	}
	sort.Strings(out)
	return out
}

func init() {
	for k, v := range map[string]externalFn{
		"fmt.Sprintf":           extSprintf,
		"fmt.Errorf":            extErrorf,
		"fmt.Println":           extNop,
		"fmt.Printf":            extNop,
		"fmt.Print":             extNop,
		"fmt.Sprint":            extSprint,
		"time.Now":              extTimeNow,
		"(time.Time).UnixMilli": extTimeUnix,
		"(time.Time).UnixNano":  extTimeUnix,
		"(time.Time).Unix":      extTimeUnix,

		"strconv.FormatInt":   extFormatInt,
		"strconv.Itoa":        extItoa,
		"strconv.FormatFloat": extFormatFloat,
		"strconv.ParseInt":    extParseInt,
		"strconv.ParseFloat":  extParseFloat,
		"strconv.Quote":       extQuote,
		"strconv.AppendInt":   extAppendInt,
		"strconv.AppendFloat": extAppendFloat,
		"strconv.AppendQuote": extAppendQuote,
		"strconv.AppendBool":  extAppendBool,

		"strings.Join":          extStringsJoin,
		"strings.Repeat":        extStringsRepeat,
		"strings.Split":         extStringsSplit,
		"strings.TrimSpace":     extStringsTrimSpace,
		"strings.TrimRightFunc": extStringsTrimRightFunc,
		"strings.TrimSuffix":    func(fr *frame, a []value) value { return strings.TrimSuffix(concStr(fr, a[0]), concStr(fr, a[1])) },
		"strings.TrimPrefix":    func(fr *frame, a []value) value { return strings.TrimPrefix(concStr(fr, a[0]), concStr(fr, a[1])) },
		"strings.TrimLeft":      func(fr *frame, a []value) value { return strings.TrimLeft(concStr(fr, a[0]), concStr(fr, a[1])) },
		"strings.TrimRight":     func(fr *frame, a []value) value { return strings.TrimRight(concStr(fr, a[0]), concStr(fr, a[1])) },
		"strings.Trim":          func(fr *frame, a []value) value { return strings.Trim(concStr(fr, a[0]), concStr(fr, a[1])) },
		"strings.LastIndex":     func(fr *frame, a []value) value { return strings.LastIndex(concStr(fr, a[0]), concStr(fr, a[1])) },
		"strings.Fields": func(fr *frame, a []value) value {
			var out []value
			for _, f := range strings.Fields(concStr(fr, a[0])) {
				out = append(out, f)
			}
			return out
		},
		"strings.Contains":  func(fr *frame, a []value) value { return strings.Contains(concStr(fr, a[0]), concStr(fr, a[1])) },
		"strings.HasPrefix": func(fr *frame, a []value) value { return strings.HasPrefix(concStr(fr, a[0]), concStr(fr, a[1])) },
		"strings.HasSuffix": func(fr *frame, a []value) value { return strings.HasSuffix(concStr(fr, a[0]), concStr(fr, a[1])) },
		"strings.Index":     func(fr *frame, a []value) value { return strings.Index(concStr(fr, a[0]), concStr(fr, a[1])) },
		"strings.IndexByte": func(fr *frame, a []value) value { return strings.IndexByte(concStr(fr, a[0]), a[1].(byte)) },
		"strings.Count":     func(fr *frame, a []value) value { return strings.Count(concStr(fr, a[0]), concStr(fr, a[1])) },
		"strings.ToLower":   func(fr *frame, a []value) value { return strings.ToLower(concStr(fr, a[0])) },
		"strings.ToUpper":   func(fr *frame, a []value) value { return strings.ToUpper(concStr(fr, a[0])) },
		"strings.Replace": func(fr *frame, a []value) value {
			return strings.Replace(concStr(fr, a[0]), concStr(fr, a[1]), concStr(fr, a[2]), a[3].(int))
		},
		"strings.ReplaceAll": func(fr *frame, a []value) value {
			return strings.ReplaceAll(concStr(fr, a[0]), concStr(fr, a[1]), concStr(fr, a[2]))
		},
		"(*strings.Builder).WriteString": extBuilderWriteString,
		"(*strings.Builder).WriteByte":   extBuilderWriteByte,
		"(*strings.Builder).WriteRune":   extBuilderWriteRune,
		"(*strings.Builder).Write":       extBuilderWrite,
		"(*strings.Builder).String":      extBuilderString,
		"(*strings.Builder).Len":         extBuilderLen,
		"(*strings.Builder).Grow":        extNop,
		"(*strings.Builder).Reset":       extBuilderReset,
		"(*bytes.Buffer).WriteString":    extBuilderWriteString,
		"(*bytes.Buffer).WriteByte":      extBuilderWriteByte,
		"(*bytes.Buffer).WriteRune":      extBuilderWriteRune,
		"(*bytes.Buffer).Write":          extBuilderWrite,
		"(*bytes.Buffer).String":         extBuilderString,
		"(*bytes.Buffer).Len":            extBuilderLen,
		"(*bytes.Buffer).Grow":           extNop,
		"(*bytes.Buffer).Reset":          extBuilderReset,
		"(*bytes.Buffer).Bytes":          extBufferBytes,
		"bytes.Join":                     extBytesJoin,
		"bytes.Equal":                    extBytesEqual,

		"sort.Slice":       extSortSlice,
		"sort.SliceStable": extSortSliceStable,
		"sort.Strings":     extSortStrings,
		"sort.Ints":        extSortInts,

		"math.Pow":   extMathPow,
		"math.Floor": func(fr *frame, a []value) value { return fround(fr, a[0], 0, math.Floor) },
		"math.Ceil":  func(fr *frame, a []value) value { return fround(fr, a[0], 1, math.Ceil) },
		"math.Round": func(fr *frame, a []value) value { return fround(fr, a[0], 2, math.Round) },
		"math.Trunc": func(fr *frame, a []value) value { return fround(fr, a[0], 3, math.Trunc) },
		"math.Abs":   func(fr *frame, a []value) value { return math.Abs(concF(fr, a[0])) },
		"math.IsNaN": func(fr *frame, a []value) value {
			if s, ok := a[0].(symFloat); ok {
				return wrapBool(fr.i.px.ar.mk(OpFIsNaN, 0, s.t))
			}
			return math.IsNaN(a[0].(float64))
		},
		"math.IsInf": func(fr *frame, a []value) value {
			if s, ok := a[0].(symFloat); ok {
				if sg, ok := a[1].(int); ok && sg == 0 {
					return wrapBool(fr.i.px.ar.mk(OpFIsInf, 0, s.t))
				}
				fr.i.px.abort("unsupported", "math.IsInf with sign on symbolic float")
			}
			return math.IsInf(a[0].(float64), a[1].(int))
		},
		"math.Inf":             func(fr *frame, a []value) value { return math.Inf(a[0].(int)) },
		"math.NaN":             func(fr *frame, a []value) value { return math.NaN() },
		"math.Float64bits":     func(fr *frame, a []value) value { return math.Float64bits(concF(fr, a[0])) },
		"math.Float64frombits": func(fr *frame, a []value) value { return math.Float64frombits(a[0].(uint64)) },
		"math.Float32bits":     func(fr *frame, a []value) value { return math.Float32bits(a[0].(float32)) },
		"math.Float32frombits": func(fr *frame, a []value) value { return math.Float32frombits(a[0].(uint32)) },
		"math.Mod":             func(fr *frame, a []value) value { return math.Mod(concF(fr, a[0]), concF(fr, a[1])) },
		"math.Sqrt":            func(fr *frame, a []value) value { return math.Sqrt(concF(fr, a[0])) },
		"math.Log":             func(fr *frame, a []value) value { return math.Log(concF(fr, a[0])) },

		"(*sync.Mutex).Lock":      extMutexLock,
		"(*sync.Mutex).Unlock":    extMutexUnlock,
		"(*sync.Mutex).TryLock":   extMutexTryLock,
		"(*sync.RWMutex).Lock":    extMutexLock,
		"(*sync.RWMutex).Unlock":  extMutexUnlock,
		"(*sync.RWMutex).RLock":   extMutexLock,
		"(*sync.RWMutex).RUnlock": extMutexUnlock,

		"(*sync.Map).Load":                  extSyncMapLoad,
		"(*sync.Map).Store":                 extSyncMapStore,
		"(*sync.Map).LoadOrStore":           extSyncMapLoadOrStore,
		"(*sync.Map).LoadAndDelete":         extSyncMapLoadAndDelete,
		"(*sync.Map).Delete":                extSyncMapDelete,
		"(*sync.Map).Swap":                  extSyncMapSwap,
		"(*sync.Map).CompareAndSwap":        extSyncMapCompareAndSwap,
		"(*sync.Map).CompareAndDelete":      extSyncMapCompareAndDelete,
		"(*sync.Map).Range":                 extSyncMapRange,
		"(*sync.Map).Clear":                 extSyncMapClear,
		"(*sync.Pool).Get":                  extPoolGet,
		"(*sync.Pool).Put":                  extPoolPut,
		"(*sync/atomic.Value).Load":         extAtomicValueLoad,
		"(*sync/atomic.Value).Store":        extAtomicValueStore,
		"sync/atomic.LoadPointer":           extAtomicLoad,
		"sync/atomic.StorePointer":          extAtomicStore,
		"sync/atomic.CompareAndSwapPointer": extAtomicCAS,
		"sync/atomic.SwapPointer":           extAtomicSwap,
		"sync/atomic.LoadInt32":             extAtomicLoad,
		"sync/atomic.LoadInt64":             extAtomicLoad,
		"sync/atomic.LoadUint32":            extAtomicLoad,
		"sync/atomic.LoadUint64":            extAtomicLoad,
		"sync/atomic.StoreInt32":            extAtomicStore,
		"sync/atomic.StoreInt64":            extAtomicStore,
		"sync/atomic.StoreUint32":           extAtomicStore,
		"sync/atomic.StoreUint64":           extAtomicStore,
		"sync/atomic.CompareAndSwapInt32":   extAtomicCAS,
		"sync/atomic.CompareAndSwapInt64":   extAtomicCAS,
		"sync/atomic.CompareAndSwapUint32":  extAtomicCAS,
		"sync/atomic.AddInt32":              extAtomicAdd,
		"sync/atomic.AddInt64":              extAtomicAdd,
		"sync/atomic.AddUint32":             extAtomicAdd,
		"sync/atomic.AddUint64":             extAtomicAdd,

		"regexp.Compile":                           extRegexpCompile,
		"regexp.MustCompile":                       extRegexpMustCompile,
		"(*regexp.Regexp).FindStringSubmatchIndex": extRegexpFSSI,
		"(*regexp.Regexp).MatchString":             extRegexpMatchString,
		"(*regexp.Regexp).String":                  extRegexpString,
		"reflect.ValueOf":                          extReflectValueOf,
		"(reflect.Value).Pointer":                  extReflectPointer,
		"internal/bytealg.IndexByteString":         func(fr *frame, a []value) value { return strings.IndexByte(concStr(fr, a[0]), a[1].(byte)) },
		"internal/bytealg.IndexByte":               extIndexByte,
		"internal/bytealg.CountString":             func(fr *frame, a []value) value { return strings.Count(concStr(fr, a[0]), string([]byte{a[1].(byte)})) },
		"internal/bytealg.Count":                   extCountBytes,
		"internal/bytealg.Equal":                   extBytesEqual,
		"internal/bytealg.IndexString":             func(fr *frame, a []value) value { return strings.Index(concStr(fr, a[0]), concStr(fr, a[1])) },
		"internal/stringslite.Index":               func(fr *frame, a []value) value { return strings.Index(concStr(fr, a[0]), concStr(fr, a[1])) },
		"internal/stringslite.IndexByte":           func(fr *frame, a []value) value { return strings.IndexByte(concStr(fr, a[0]), a[1].(byte)) },
		"internal/stringslite.HasPrefix":           func(fr *frame, a []value) value { return strings.HasPrefix(concStr(fr, a[0]), concStr(fr, a[1])) },
		"internal/stringslite.HasSuffix":           func(fr *frame, a []value) value { return strings.HasSuffix(concStr(fr, a[0]), concStr(fr, a[1])) },
		"internal/abi.NoEscape":                    func(fr *frame, a []value) value { return a[0] },
		"runtime.GC":                               extNop,
		"runtime.Gosched":                          extNop,
		"runtime.KeepAlive":                        extNop,
		"os.Exit":                                  func(fr *frame, a []value) value { fr.i.px.abort("unsupported", "os.Exit"); return nil },

		"unicode/utf8.DecodeRune":         extDecodeRune,
		"unicode/utf8.DecodeRuneInString": extDecodeRuneInString,
		"unicode/utf8.RuneCountInString":  func(fr *frame, a []value) value { return utf8.RuneCountInString(concStr(fr, a[0])) },
		"unicode/utf8.RuneCount":          extRuneCount,
		"unicode/utf8.ValidString":        func(fr *frame, a []value) value { return utf8.ValidString(concStr(fr, a[0])) },
		"unicode.Is":                      extUnicodeIs,
		"unicode.IsSpace":                 extUnicodeIsSpace,
		"unicode.ToLower":                 extUnicodeToLower,

		"(*golang.org/x/exp/rand.PCGSource).Uint64": extPCGUint64,
		"golang.org/x/exp/rand.Intn":                extGlobalRand,
		"golang.org/x/exp/rand.Int":                 extGlobalRand,
		"golang.org/x/exp/rand.Int63":               extGlobalRand,
		"golang.org/x/exp/rand.Int63n":              extGlobalRand,
		"golang.org/x/exp/rand.Int31n":              extGlobalRand,
		"golang.org/x/exp/rand.Uint64":              extGlobalRand,
		"golang.org/x/exp/rand.Float64":             extGlobalRand,
		"golang.org/x/exp/rand.Shuffle":             extGlobalShuffle,
	} {
		externals[k] = v
	}
}

func extNop(fr *frame, args []value) value {
	fn := fr.fn
	res := fn.Signature.Results()
	switch res.Len() {
	case 0:
		return nil
	case 1:
		return zero(res.At(0).Type())
	}
	t := make(tuple, res.Len())
	for i := range t {
		t[i] = zero(res.At(i).Type())
	}
	return t
}

func concF(fr *frame, v value) float64 {
	switch f := v.(type) {
	case float64:
		return f
	case symFloat:
		fr.i.px.abort("unsupported", "native math function on symbolic float")
	}
	panic(fmt.Sprintf("concF %T", v))
}

func fround(fr *frame, v value, mode uint64, f func(float64) float64) value {
	if s, ok := v.(symFloat); ok {
		t := fr.i.px.ar.mk(OpFRound, 64, s.t)
		t.isF = true
		t.cval = mode
		return symFloat{t}
	}
	return f(v.(float64))
}

func extMathPow(fr *frame, a []value) value {
	_, s1 := a[0].(symFloat)
	_, s2 := a[1].(symFloat)
	if s1 || s2 {
		px := fr.i.px
		// uninterpreted function: equal argument terms give the same result
		key := "pow(" + termKey(px.floatTerm(a[0])) + "," + termKey(px.floatTerm(a[1])) + ")"
		if px.ufCache == nil {
			px.ufCache = map[string]*Term{}
		}
		if t, ok := px.ufCache[key]; ok {
			return symFloat{t}
		}
		t := px.newFloatSym("env", "pow")
		px.ufCache[key] = t
		return symFloat{t}
	}
	return math.Pow(a[0].(float64), a[1].(float64))
}

// ---------------------------------------------------------------------
// error values created natively

func (i *interpreter) newError(msg value) value {
	// errors.New is interpreted: &errorString{s}
	pkg := i.prog.ImportedPackage("errors")
	if pkg == nil {
		panic("errors package not loaded")
	}
	t := pkg.Type("errorString").Object().Type()
	var cell value = structure{msg}
	return iface{t: ptrTo(t), v: &cell}
}

// goValue converts a concrete interp scalar to a Go value for fmt.
func goValue(fr *frame, v value) (interface{}, bool) {
	switch x := v.(type) {
	case bool, int, int8, int16, int32, int64, uint, uint8, uint16, uint32, uint64, uintptr, float32, float64, string:
		return x, true
	}
	return nil, false
}

// stringOf renders %s / %v of an argument as a string-like value.
func stringOf(fr *frame, arg value, verb byte) value {
	px := fr.i.px
	if it, ok := arg.(iface); ok {
		if it.t == nil {
			if verb == 's' {
				return "%!s(<nil>)"
			}
			return "<nil>"
		}
		// error / Stringer
		for _, mname := range []string{"Error", "String"} {
			ms := fr.i.prog.MethodSets.MethodSet(it.t)
			for k := 0; k < ms.Len(); k++ {
				sel := ms.At(k)
				if sel.Obj().Name() == mname {
					sig := sel.Type().(*types.Signature)
					if sig.Params().Len() == 0 && sig.Results().Len() == 1 {
						if b, ok := sig.Results().At(0).Type().Underlying().(*types.Basic); ok && b.Kind() == types.String {
							fn := fr.i.prog.MethodValue(sel)
							return call(fr.i, fr, token.NoPos, fn, []value{it.v})
						}
					}
				}
			}
		}
		arg = it.v
	}
	switch x := arg.(type) {
	case string:
		return x
	case *rope:
		return x
	case symInt:
		t := x.t
		if kindSigned(x.k) {
			t = px.ar.SExt(t, 64)
		} else {
			if t.w == 64 {
				px.abort("unsupported", "decimal rendering of symbolic uint64")
			}
			t = px.ar.ZExt(t, 64)
		}
		return mkRope([]ropePart{{kind: rkNum, num: t}})
	case symBool, symFloat:
		px.abort("unsupported", "formatting symbolic %T", x)
	case []value:
		// []byte as string for %s
		if verb == 's' {
			return conv(fr, types.Typ[types.String], types.NewSlice(types.Typ[types.Byte]), x)
		}
	}
	if g, ok := goValue(fr, arg); ok {
		return fmt.Sprintf("%"+string(verb), g)
	}
	return toString(arg)
}

func sprintf(fr *frame, format string, args []value) value {
	var parts []value
	argi := 0
	i := 0
	lit := func(s string) {
		if s != "" {
			parts = append(parts, s)
		}
	}
	for i < len(format) {
		j := strings.IndexByte(format[i:], '%')
		if j < 0 {
			lit(format[i:])
			break
		}
		lit(format[i : i+j])
		i += j + 1
		// flags/width
		st := i
		for i < len(format) && strings.IndexByte("+-# 0123456789.", format[i]) >= 0 {
			i++
		}
		if i >= len(format) {
			lit("%!(NOVERB)")
			break
		}
		flags := format[st:i]
		verb := format[i]
		i++
		if verb == '%' {
			lit("%")
			continue
		}
		if argi >= len(args) {
			lit("%!" + string(verb) + "(MISSING)")
			continue
		}
		arg := args[argi]
		argi++
		inner := arg
		if it, ok := arg.(iface); ok {
			inner = it.v
		}
		if verb == 'T' {
			if it, ok := arg.(iface); ok && it.t != nil {
				lit(it.t.String())
			} else {
				lit("<nil>")
			}
			continue
		}
		if verb == 'v' && (flags == "" || flags == "+") {
			if it, ok := arg.(iface); ok && it.t != nil && !hasStringMethod(fr, it.t) {
				if _, basic := it.t.Underlying().(*types.Basic); !basic {
					if s, ok := fmtTyped(fr, it.t, it.v, flags == "+", true); ok {
						lit(s)
						continue
					}
				}
			}
		}
		if g, ok := goValue(fr, inner); ok {
			// named string types etc. still format natively unless they have methods
			if it, ok2 := arg.(iface); !ok2 || !hasStringMethod(fr, it.t) {
				lit(fmt.Sprintf("%"+flags+string(verb), g))
				continue
			}
		}
		if flags != "" {
			s := stringOf(fr, arg, verb)
			if gs, ok := s.(string); ok {
				lit(fmt.Sprintf("%"+flags+"s", gs))
				continue
			}
			fr.i.px.abort("unsupported", "format flags %q on symbolic argument", flags)
		}
		switch verb {
		case 'd', 's', 'v':
			parts = append(parts, stringOf(fr, arg, verb))
		case 'c':
			if s, ok := inner.(symInt); ok {
				parts = append(parts, ropeFromRune(fr, s))
				continue
			}
			fallthrough
		default:
			fr.i.px.abort("unsupported", "format verb %%%c on %T", verb, inner)
		}
	}
	if argi < len(args) {
		lit("%!(EXTRA ...)")
	}
	fr.i.px.workUnits += int64(len(format))
	return ropeConcat(parts...)
}

func hasStringMethod(fr *frame, t types.Type) bool {
	if t == nil {
		return false
	}
	ms := fr.i.prog.MethodSets.MethodSet(t)
	for k := 0; k < ms.Len(); k++ {
		n := ms.At(k).Obj().Name()
		if n == "Error" || n == "String" {
			return true
		}
	}
	return false
}

func extSprintf(fr *frame, args []value) value {
	return sprintf(fr, concStr(fr, args[0]), args[1].([]value))
}

func extSprint(fr *frame, args []value) value {
	var parts []value
	ops := args[0].([]value)
	for k, a := range ops {
		if k > 0 && !isStringOperand(a) && !isStringOperand(ops[k-1]) {
			parts = append(parts, " ")
		}
		parts = append(parts, stringOf(fr, a, 'v'))
	}
	return ropeConcat(parts...)
}

func extErrorf(fr *frame, args []value) value {
	format := concStr(fr, args[0])
	ops := args[1].([]value)
	if strings.Count(format, "%w") == 1 && strings.Count(format, "%%") == 0 {
		// the operand of %w, rendered as %v, and remembered for Unwrap
		k := strings.Count(format[:strings.Index(format, "%w")], "%")
		if k < len(ops) {
			if it, ok := ops[k].(iface); ok && it.t != nil && hasStringMethod(fr, it.t) {
				msg := sprintf(fr, strings.Replace(format, "%w", "%v", 1), ops)
				return fr.i.wrapError(msg, ops[k])
			}
		}
	}
	return fr.i.newError(sprintf(fr, strings.ReplaceAll(format, "%w", "%v"), ops))
}

// ---------------------------------------------------------------------
// time

type timeVal struct{ ms value }

func extTimeNow(fr *frame, args []value) value {
	px := fr.i.px
	return timeVal{symInt{px.newSym("env", "time", 64), types.Int64}}
}

func extTimeUnix(fr *frame, args []value) value {
	return args[0].(timeVal).ms
}

// ---------------------------------------------------------------------
// strconv

func extFormatInt(fr *frame, args []value) value {
	base := args[1].(int)
	if s, ok := args[0].(symInt); ok {
		if base != 10 {
			fr.i.px.abort("unsupported", "FormatInt base %d on symbolic value", base)
		}
		return mkRope([]ropePart{{kind: rkNum, num: s.t}})
	}
	return strconv.FormatInt(args[0].(int64), base)
}

// bytesAsStr is the string content of a []byte value (concrete, symbolic
// bytes, or a rope-backed buffer).
func bytesAsStr(fr *frame, v value) value {
	switch b := v.(type) {
	case nil:
		return ""
	case ropeBytes:
		return b.r
	case []value:
		conc := make([]byte, 0, len(b))
		for _, x := range b {
			c, ok := x.(uint8)
			if !ok {
				return ropeFromBytes(fr, b)
			}
			conc = append(conc, c)
		}
		return string(conc)
	}
	fr.i.px.abort("unsupported", "byte buffer of kind %T", v)
	return nil
}

// strconv.AppendX(dst, ...) = dst + FormatX(...) on rope-backed buffers, so
// that formatting a symbolic number into a buffer does not fork per digit.
func appendFormatted(fr *frame, dst value, s value) value {
	return mkRopeBytes(ropeConcat(bytesAsStr(fr, dst), s))
}

func extAppendInt(fr *frame, args []value) value {
	return appendFormatted(fr, args[0], extFormatInt(fr, args[1:]))
}

func extAppendFloat(fr *frame, args []value) value {
	return appendFormatted(fr, args[0], extFormatFloat(fr, args[1:]))
}

func extAppendQuote(fr *frame, args []value) value {
	return appendFormatted(fr, args[0], extQuote(fr, args[1:]))
}

func extAppendBool(fr *frame, args []value) value {
	if b, ok := args[1].(bool); ok {
		return appendFormatted(fr, args[0], strconv.FormatBool(b))
	}
	if fr.i.px.forkBool(fr.i.px.boolTerm(args[1])) {
		return appendFormatted(fr, args[0], "true")
	}
	return appendFormatted(fr, args[0], "false")
}

func extItoa(fr *frame, args []value) value {
	if s, ok := args[0].(symInt); ok {
		return mkRope([]ropePart{{kind: rkNum, num: s.t}})
	}
	return strconv.Itoa(args[0].(int))
}

func extFormatFloat(fr *frame, args []value) value {
	if sf, ok := args[0].(symFloat); ok {
		// The decimal rendering of a symbolic float is opaque text: its
		// identity is the float term, its length an unknown in [1,330].
		px := fr.i.px
		ln := px.newSym("env", "fmtfloat_len", 64)
		px.assume(px.ar.And(px.ar.Cmp(OpUle, px.ar.Const(64, 1), ln), px.ar.Cmp(OpUle, ln, px.ar.Const(64, 330))))
		return &rope{parts: []ropePart{{kind: rkOpaque, num: ln, id: sf.t}}}
	}
	return strconv.FormatFloat(args[0].(float64), args[1].(byte), args[2].(int), args[3].(int))
}

func (i *interpreter) strconvErr(fr *frame, err error) value {
	if err == nil {
		return iface{}
	}
	return i.newError(err.Error())
}

func extParseInt(fr *frame, args []value) value {
	if r, ok := args[0].(*rope); ok {
		return ropeParseInt(fr, r, args[1].(int), args[2].(int))
	}
	v, err := strconv.ParseInt(args[0].(string), args[1].(int), args[2].(int))
	return tuple{v, fr.i.strconvErr(fr, err)}
}

func extParseFloat(fr *frame, args []value) value {
	s := concStr(fr, args[0])
	v, err := strconv.ParseFloat(s, args[1].(int))
	return tuple{v, fr.i.strconvErr(fr, err)}
}

func extQuote(fr *frame, args []value) value {
	return strconv.Quote(concStr(fr, args[0]))
}

// ropeParseInt: decimal digits of concrete count → value term with the real
// saturation behaviour of strconv.ParseInt (max/min on range error).
func ropeParseInt(fr *frame, r *rope, base, bits int) value {
	px := fr.i.px
	if base != 10 || bits != 64 || !r.hasOnlyFixed() {
		s := r.concretizeString(fr)
		v, err := strconv.ParseInt(s, base, bits)
		return tuple{v, fr.i.strconvErr(fr, err)}
	}
	at := r.atoms(px)
	if len(at) > 6 {
		s := r.concretizeString(fr)
		v, err := strconv.ParseInt(s, base, bits)
		return tuple{v, fr.i.strconvErr(fr, err)}
	}
	a := &px.ar
	// all digits? otherwise concretise (error paths)
	allDigits := tTrue
	for _, b := range at {
		allDigits = a.And(allDigits, a.And(a.Cmp(OpUle, a.Const(8, '0'), b), a.Cmp(OpUle, b, a.Const(8, '9'))))
	}
	if !px.forkBool(allDigits) {
		s := r.concretizeString(fr)
		v, err := strconv.ParseInt(s, base, bits)
		return tuple{v, fr.i.strconvErr(fr, err)}
	}
	acc := a.Const(64, 0)
	for _, b := range at {
		d := a.ZExt(a.Bin(OpSub, b, a.Const(8, '0')), 64)
		acc = a.Bin(OpAdd, a.Bin(OpMul, acc, a.Const(64, 10)), d)
	}
	return tuple{wrapInt(acc, types.Int64), iface{}}
}

// ---------------------------------------------------------------------
// strings / bytes

func sliceOfStrings(v value) []value { return v.([]value) }

func extStringsJoin(fr *frame, args []value) value {
	elems := sliceOfStrings(args[0])
	sep := args[1]
	var parts []value
	for i, e := range elems {
		if i > 0 {
			parts = append(parts, sep)
		}
		parts = append(parts, e)
	}
	r := ropeConcat(parts...)
	fr.i.px.workUnits += int64(ropeMinLen(r))
	return r
}

func extStringsRepeat(fr *frame, args []value) value {
	n := fr.concretizeLen(args[1], "strings.Repeat")
	if n < 0 {
		goPanic("strings: negative Repeat count")
	}
	s := args[0]
	if gs, ok := s.(string); ok {
		if int64(len(gs))*n > maxAlloc {
			goPanic("strings: Repeat output length overflow")
		}
		fr.i.px.workUnits += int64(len(gs)) * n
		return strings.Repeat(gs, int(n))
	}
	var parts []value
	for i := int64(0); i < n; i++ {
		parts = append(parts, s)
	}
	return ropeConcat(parts...)
}

func extStringsSplit(fr *frame, args []value) value {
	if r, ok := args[0].(*rope); ok && r.hasOnlyFixed() {
		if sep, ok := args[1].(string); ok && len(sep) == 1 {
			// split on a one-byte separator: one two-way fork per symbolic byte
			bs := r.toBytes(fr)
			var out []value
			start := 0
			for i, b := range bs {
				if truth(fr, symEq(fr, types.Typ[types.Uint8], b, sep[0])) {
					out = append(out, bytesToRope(fr, bs[start:i]))
					start = i + 1
				}
			}
			out = append(out, bytesToRope(fr, bs[start:]))
			return out
		}
	}
	res := strings.Split(concStr(fr, args[0]), concStr(fr, args[1]))
	out := make([]value, len(res))
	for i, s := range res {
		out[i] = s
	}
	return out
}

func extStringsTrimSpace(fr *frame, args []value) value {
	if r, ok := args[0].(*rope); ok && r.hasOnlyFixed() {
		// ASCII whitespace on symbolic bytes; non-ASCII bytes stop the trim
		bs := r.toBytes(fr)
		px := fr.i.px
		isSp := func(b value) bool {
			switch x := b.(type) {
			case byte:
				return x == ' ' || (x >= 9 && x <= 13)
			case symInt:
				a := &px.ar
				c := a.Or(a.Eq(x.t, a.Const(8, ' ')), a.And(a.Cmp(OpUle, a.Const(8, 9), x.t), a.Cmp(OpUle, x.t, a.Const(8, 13))))
				fr.noteSymBranch()
				return px.forkBool(c)
			}
			return false
		}
		lo, hi := 0, len(bs)
		for lo < hi && isSp(bs[lo]) {
			lo++
		}
		for hi > lo && isSp(bs[hi-1]) {
			hi--
		}
		// multi-byte Unicode spaces (U+0085, U+00A0, ...) at the ends are not trimmed symbolically
		if lo == hi {
			return ""
		}
		return bytesToRope(fr, bs[lo:hi])
	}
	if r, ok := args[0].(*rope); ok {
		// only trims literal ends
		parts := append([]ropePart{}, r.parts...)
		if parts[0].kind == rkLit {
			parts[0].lit = strings.TrimLeft(parts[0].lit, " \t\n\v\f\r\u0085 ")
		} else if parts[0].kind == rkBytes {
			fr.i.px.abort("unsupported", "TrimSpace on symbolic bytes")
		}
		n := len(parts) - 1
		if parts[n].kind == rkLit {
			parts[n].lit = strings.TrimRight(parts[n].lit, " \t\n\v\f\r\u0085 ")
		} else if parts[n].kind == rkBytes {
			fr.i.px.abort("unsupported", "TrimSpace on symbolic bytes")
		}
		return mkRope(parts)
	}
	return strings.TrimSpace(args[0].(string))
}

func extStringsTrimRightFunc(fr *frame, args []value) value {
	f := args[1]
	if r, ok := args[0].(*rope); ok && r.hasOnlyFixed() {
		bs := r.toBytes(fr)
		n := len(bs)
		px := fr.i.px
		for n > 0 {
			b := bs[n-1]
			var rn value
			if cb, ok := b.(byte); ok {
				if cb >= 0x80 {
					break // multi-byte tail: handled concretely below
				}
				rn = rune(cb)
			} else {
				sb := b.(symInt)
				if !px.forkBool(px.ar.Cmp(OpUlt, sb.t, px.ar.Const(8, 0x80))) {
					break
				}
				rn = wrapInt(px.ar.ZExt(sb.t, 32), types.Int32)
			}
			if !truth(fr, call(fr.i, fr, token.NoPos, f, []value{rn})) {
				return bytesToRope(fr, bs[:n])
			}
			n--
		}
		if n == 0 {
			return ""
		}
		args = []value{bytesToRope(fr, bs[:n]), f}
	}
	s := concStr(fr, args[0])
	return strings.TrimRightFunc(s, func(r rune) bool {
		res := call(fr.i, fr, token.NoPos, f, []value{r})
		switch b := res.(type) {
		case bool:
			return b
		case symBool:
			return fr.i.px.forkBool(b.t)
		}
		panic("TrimRightFunc: bad result")
	})
}

// Builder / Buffer: the accumulated text lives in field 1 (Builder.buf) or
// field 0 (Buffer.buf) as a string-like value; all methods are externals.
func builderSlot(fr *frame, recv value) *value {
	p := recv.(*value)
	if p == nil {
		derefNil(fr)
	}
	st := (*p).(structure)
	name := fr.fn.Signature.Recv().Type().String()
	if strings.Contains(name, "strings.Builder") {
		return &st[1]
	}
	return &st[0]
}

func builderGet(fr *frame, slot *value) value {
	switch s := (*slot).(type) {
	case string:
		return s
	case *rope:
		return s
	case ropeBytes:
		return s.r
	case []value:
		// a buffer built by NewBuffer / NewBufferString holds real bytes
		return bytesAsStr(fr, s)
	}
	return ""
}

func extBuilderWriteString(fr *frame, args []value) value {
	slot := builderSlot(fr, args[0])
	*slot = ropeConcat(builderGet(fr, slot), args[1])
	n := value(ropeMinLen(args[1]))
	if r, ok := args[1].(*rope); ok {
		n = r.length(fr)
	}
	fr.i.px.workUnits += int64(ropeMinLen(args[1]))
	return tuple{n, iface{}}
}

func extBuilderWriteByte(fr *frame, args []value) value {
	slot := builderSlot(fr, args[0])
	var s value
	if sb, ok := args[1].(symInt); ok {
		s = mkRope([]ropePart{{kind: rkBytes, bytes: []*Term{sb.t}}})
	} else {
		s = string([]byte{args[1].(byte)})
	}
	*slot = ropeConcat(builderGet(fr, slot), s)
	return iface{}
}

func extBuilderWriteRune(fr *frame, args []value) value {
	slot := builderSlot(fr, args[0])
	var s value
	if sr, ok := args[1].(symInt); ok {
		s = ropeFromRune(fr, sr)
	} else {
		s = string(args[1].(rune))
	}
	*slot = ropeConcat(builderGet(fr, slot), s)
	return tuple{ropeMinLen(s), iface{}}
}

func extBuilderWrite(fr *frame, args []value) value {
	slot := builderSlot(fr, args[0])
	if rb, ok := args[1].(ropeBytes); ok {
		*slot = ropeConcat(builderGet(fr, slot), rb.r)
		return tuple{ropeMinLen(rb.r), iface{}}
	}
	bs := args[1].([]value)
	s := conv(fr, types.Typ[types.String], types.NewSlice(types.Typ[types.Byte]), bs)
	*slot = ropeConcat(builderGet(fr, slot), s)
	return tuple{len(bs), iface{}}
}

func extBuilderString(fr *frame, args []value) value {
	return builderGet(fr, builderSlot(fr, args[0]))
}

func extBuilderLen(fr *frame, args []value) value {
	switch s := builderGet(fr, builderSlot(fr, args[0])).(type) {
	case string:
		return len(s)
	case *rope:
		return s.length(fr)
	}
	return 0
}

func extBuilderReset(fr *frame, args []value) value {
	*builderSlot(fr, args[0]) = ""
	return nil
}

func extBufferBytes(fr *frame, args []value) value {
	s := builderGet(fr, builderSlot(fr, args[0]))
	if r, ok := s.(*rope); ok && !r.hasOnlyFixed() {
		return ropeBytes{r}
	}
	return conv(fr, types.NewSlice(types.Typ[types.Byte]), types.Typ[types.String], s)
}

func extBytesJoin(fr *frame, args []value) value {
	elems := args[0].([]value)
	sep := args[1].([]value)
	var out []value
	for i, e := range elems {
		if i > 0 {
			out = append(out, sep...)
		}
		out = append(out, e.([]value)...)
	}
	if out == nil {
		out = []value{}
	}
	fr.i.px.workUnits += int64(len(out))
	return out
}

func extBytesEqual(fr *frame, args []value) value {
	a := args[0].([]value)
	b := args[1].([]value)
	if len(a) != len(b) {
		return false
	}
	acc := value(true)
	for i := range a {
		acc = andV(fr, acc, symEq(fr, types.Typ[types.Uint8], a[i], b[i]))
	}
	return acc
}

func extIndexByte(fr *frame, args []value) value {
	s := args[0].([]value)
	c := args[1]
	for i, b := range s {
		eq := symEq(fr, types.Typ[types.Uint8], b, c)
		switch e := eq.(type) {
		case bool:
			if e {
				return i
			}
		case symBool:
			if fr.i.px.forkBool(e.t) {
				return i
			}
		}
	}
	return -1
}

func extCountBytes(fr *frame, args []value) value {
	s := args[0].([]value)
	c := args[1]
	n := 0
	for _, b := range s {
		eq := symEq(fr, types.Typ[types.Uint8], b, c)
		switch e := eq.(type) {
		case bool:
			if e {
				n++
			}
		case symBool:
			if fr.i.px.forkBool(e.t) {
				n++
			}
		}
	}
	return n
}

func extRuneCount(fr *frame, args []value) value {
	bs := args[0].([]value)
	b := make([]byte, len(bs))
	for i, x := range bs {
		c, ok := x.(byte)
		if !ok {
			fr.i.px.abort("unsupported", "RuneCount on symbolic bytes")
		}
		b[i] = c
	}
	return utf8.RuneCount(b)
}

// ---------------------------------------------------------------------
// sort: insertion sort calling the real less / Less symbolically.

func truth(fr *frame, v value) bool {
	switch b := v.(type) {
	case bool:
		return b
	case symBool:
		fr.noteSymBranch()
		return fr.i.px.forkBool(b.t)
	}
	panic(fmt.Sprintf("truth: %T", v))
}

// sort.Slice runs the real (interpreted) pdqsort_func of package sort with
// the caller's less closure and an engine-native swapper, so the order of
// equal elements is the one the Go library produces.  sort.Sort/Stable are
// interpreted directly.
func extSortSlice(fr *frame, args []value) value {
	x := args[0].(iface).v.([]value)
	less := args[1]
	swap := nativeFn(func(fr *frame, a []value) value {
		i, j := a[0].(int), a[1].(int)
		x[i], x[j] = x[j], x[i]
		return nil
	})
	pkg := fr.i.prog.ImportedPackage("sort")
	fn := pkg.Func("pdqsort_func")
	if fn == nil {
		fr.i.px.abort("engine", "sort.pdqsort_func not found")
	}
	n := len(x)
	call(fr.i, fr, token.NoPos, fn, []value{structure{less, swap}, 0, n, bits.Len(uint(n))})
	return nil
}

func extSortSliceStable(fr *frame, args []value) value {
	x := args[0].(iface).v.([]value)
	less := args[1]
	swap := nativeFn(func(fr *frame, a []value) value {
		i, j := a[0].(int), a[1].(int)
		x[i], x[j] = x[j], x[i]
		return nil
	})
	pkg := fr.i.prog.ImportedPackage("sort")
	fn := pkg.Func("stable_func")
	if fn == nil {
		fr.i.px.abort("engine", "sort.stable_func not found")
	}
	call(fr.i, fr, token.NoPos, fn, []value{structure{less, swap}, len(x)})
	return nil
}

func extSortStrings(fr *frame, args []value) value {
	x := args[0].([]value)
	sort.SliceStable(x, func(i, j int) bool { return concStr(fr, x[i]) < concStr(fr, x[j]) })
	return nil
}

func extSortInts(fr *frame, args []value) value {
	x := args[0].([]value)
	for i := 1; i < len(x); i++ {
		for j := i; j > 0; j-- {
			if !truth(fr, binop(fr, token.LSS, nil, x[j], x[j-1])) {
				break
			}
			x[j], x[j-1] = x[j-1], x[j]
		}
	}
	return nil
}

// ---------------------------------------------------------------------
// sync

func mutexState(fr *frame, recv value) *value {
	p := recv.(*value)
	if p == nil {
		derefNil(fr)
	}
	st := (*p).(structure)
	// sync.Mutex{state int32, sema uint32}; RWMutex{w Mutex, ...}
	if inner, ok := st[0].(structure); ok {
		return &inner[0]
	}
	return &st[0]
}

func extMutexLock(fr *frame, args []value) value {
	s := mutexState(fr, args[0])
	fr.i.px.syncPoint(fr, s)
	if (*s).(int32) != 0 {
		px := fr.i.px
		px.violation("hang", "deadlock", "sync.Mutex locked twice on one goroutine (self-deadlock)", fr, nil)
		px.abort("deadlock", "mutex re-locked")
	}
	*s = int32(1)
	fr.i.px.locksHeld++
	return nil
}

func extMutexTryLock(fr *frame, args []value) value {
	s := mutexState(fr, args[0])
	if (*s).(int32) != 0 {
		return false
	}
	*s = int32(1)
	fr.i.px.locksHeld++
	return true
}

func extMutexUnlock(fr *frame, args []value) value {
	s := mutexState(fr, args[0])
	fr.i.px.syncPoint(fr, nil)
	if (*s).(int32) == 0 {
		panic(targetPanic{runtimeError("fatal error: sync: unlock of unlocked mutex")})
	}
	*s = int32(0)
	if fr.i.px.locksHeld > 0 {
		fr.i.px.locksHeld--
	}
	return nil
}

// sync.Pool: a per-path LIFO free list (Get may return any pooled item; the
// most recently returned one is the choice the Go runtime makes on one P).
func extPoolGet(fr *frame, args []value) value {
	p := args[0].(*value)
	if p == nil {
		derefNil(fr)
	}
	px := fr.i.px
	if l := px.pools[p]; len(l) > 0 {
		it := l[len(l)-1]
		px.pools[p] = l[:len(l)-1]
		return it
	}
	st := (*p).(structure)
	newFn := st[len(st)-1]
	switch f := newFn.(type) {
	case *ssa.Function:
		if f == nil {
			return iface{}
		}
	}
	return call(fr.i, fr, token.NoPos, newFn, nil)
}

func extPoolPut(fr *frame, args []value) value {
	p := args[0].(*value)
	if p == nil {
		derefNil(fr)
	}
	px := fr.i.px
	if px.pools == nil {
		px.pools = map[*value][]value{}
	}
	if it, ok := args[1].(iface); ok && it.t == nil {
		return nil
	}
	px.pools[p] = append(px.pools[p], args[1])
	return nil
}

var ptrTypes sync.Map // types.Type -> *types.Pointer (one object per element type: the method-set hasher memoises by identity)

func ptrTo(t types.Type) types.Type {
	if p, ok := ptrTypes.Load(t); ok {
		return p.(types.Type)
	}
	p, _ := ptrTypes.LoadOrStore(t, types.NewPointer(t))
	return p.(types.Type)
}

func extAtomicValueLoad(fr *frame, args []value) value {
	p := args[0].(*value)
	fr.i.px.syncPoint(fr, nil)
	return (*p).(structure)[0]
}

func extAtomicValueStore(fr *frame, args []value) value {
	p := args[0].(*value)
	fr.i.px.syncPoint(fr, nil)
	(*p).(structure)[0] = args[1]
	if fr.i.shared != nil {
		fr.i.publish(&(*p).(structure)[0])
	}
	return nil
}

func extAtomicLoad(fr *frame, args []value) value {
	p := args[0].(*value)
	if p == nil {
		derefNil(fr)
	}
	fr.i.px.syncPoint(fr, nil)
	return *p
}

func extAtomicStore(fr *frame, args []value) value {
	p := args[0].(*value)
	if p == nil {
		derefNil(fr)
	}
	fr.i.px.syncPoint(fr, nil)
	*p = args[1]
	if fr.i.shared != nil {
		fr.i.publish(p)
	}
	return nil
}

func extAtomicSwap(fr *frame, args []value) value {
	p := args[0].(*value)
	fr.i.px.syncPoint(fr, nil)
	old := *p
	*p = args[1]
	return old
}

func extAtomicCAS(fr *frame, args []value) value {
	p := args[0].(*value)
	if p == nil {
		derefNil(fr)
	}
	fr.i.px.syncPoint(fr, nil)
	var eq bool
	switch o := args[1].(type) {
	case unsafe.Pointer:
		eq = (*p).(unsafe.Pointer) == o
	default:
		eq = *p == args[1]
	}
	if eq {
		*p = args[2]
		if fr.i.shared != nil {
			fr.i.publish(p)
		}
		return true
	}
	return false
}

func extAtomicAdd(fr *frame, args []value) value {
	p := args[0].(*value)
	nv := binop(fr, token.ADD, nil, *p, args[1])
	*p = nv
	return nv
}

// ---------------------------------------------------------------------
// regexp (native, concrete arguments only)

type nativeRegexp struct{ re *regexp.Regexp }

func regexpPtr(fr *frame, re *regexp.Regexp) value {
	var cell value = nativeRegexp{re}
	return &cell
}

func extRegexpCompile(fr *frame, args []value) value {
	re, err := regexp.Compile(concStr(fr, args[0]))
	if err != nil {
		return tuple{(*value)(nil), fr.i.newError(err.Error())}
	}
	return tuple{regexpPtr(fr, re), iface{}}
}

func extRegexpMustCompile(fr *frame, args []value) value {
	re, err := regexp.Compile(concStr(fr, args[0]))
	if err != nil {
		panic(targetPanic{"regexp: " + err.Error()})
	}
	return regexpPtr(fr, re)
}

func getRegexp(fr *frame, v value) *regexp.Regexp {
	p := v.(*value)
	if p == nil {
		derefNil(fr)
	}
	return (*p).(nativeRegexp).re
}

func extRegexpFSSI(fr *frame, args []value) value {
	re := getRegexp(fr, args[0])
	loc := re.FindStringSubmatchIndex(concStr(fr, args[1]))
	if loc == nil {
		return []value(nil)
	}
	out := make([]value, len(loc))
	for i, x := range loc {
		out[i] = x
	}
	return out
}

func extRegexpMatchString(fr *frame, args []value) value {
	return getRegexp(fr, args[0]).MatchString(concStr(fr, args[1]))
}

func extRegexpString(fr *frame, args []value) value {
	return getRegexp(fr, args[0]).String()
}

// ---------------------------------------------------------------------
// reflect: only ValueOf(f).Pointer() identity of functions

type reflectVal struct{ v value }

func extReflectValueOf(fr *frame, args []value) value {
	return reflectVal{args[0].(iface).v}
}

func extReflectPointer(fr *frame, args []value) value {
	v := args[0].(reflectVal).v
	var key value
	switch f := v.(type) {
	case *ssa.Function:
		key = f
	case *closure:
		key = f.Fn
	default:
		fr.i.px.abort("unsupported", "reflect.Value.Pointer of %T", v)
	}
	id, ok := fr.i.funcIDs[key]
	if !ok {
		id = len(fr.i.funcIDs) + 1
		fr.i.funcIDs[key] = id
	}
	return uintptr(0x1000 + id*16)
}

// ---------------------------------------------------------------------
// random sources

func extPCGUint64(fr *frame, args []value) value {
	px := fr.i.px
	recv := args[0].(*value)
	if recv == nil {
		derefNil(fr)
	}
	t := px.newSym("draw", fmt.Sprintf("draw%d", px.nDraw), 64)
	px.nDraw++
	px.drawLog = append(px.drawLog, drawRec{recv: recv, sym: t})
	px.workUnits++
	if fr.i.shared != nil {
		// advancing a generator is a write to its state
		fr.i.noteSharedWrite(fr, recv)
	}
	return symInt{t, types.Uint64}
}

func extGlobalRand(fr *frame, args []value) value {
	px := fr.i.px
	px.note("global-rand", fr.fn.String())
	px.drawLog = append(px.drawLog, drawRec{recv: nil})
	name := fr.fn.Name()
	a := &px.ar
	switch name {
	case "Intn", "Int63n", "Int31n":
		n, k := px.intTerm(args[0])
		if px.forkBool(a.Cmp(OpSle, n, a.Const(n.w, 0))) {
			panic(targetPanic{"invalid argument to " + name})
		}
		v := px.newSym("env", "globalrand", n.w)
		px.assume(a.And(a.Cmp(OpSle, a.Const(n.w, 0), v), a.Cmp(OpSlt, v, n)))
		return symInt{v, k}
	case "Uint64":
		return symInt{px.newSym("env", "globalrand", 64), types.Uint64}
	case "Int", "Int63":
		v := px.newSym("env", "globalrand", 64)
		px.assume(a.Cmp(OpSle, a.Const(64, 0), v))
		k := types.Int
		if name == "Int63" {
			k = types.Int64
		}
		return symInt{v, k}
	}
	px.abort("unsupported", "global rand.%s", name)
	return nil
}

func extGlobalShuffle(fr *frame, args []value) value {
	px := fr.i.px
	px.note("global-rand", fr.fn.String())
	px.drawLog = append(px.drawLog, drawRec{recv: nil})
	n := int(fr.concretizeLen(args[0], "Shuffle"))
	swap := args[1]
	a := &px.ar
	for i := n - 1; i > 0; i-- {
		v := px.newSym("env", "globalrand", 64)
		px.assume(a.Cmp(OpUle, v, a.Const(64, uint64(i))))
		j := fr.concretize(symInt{v, types.Int}, 0, int64(i))
		call(fr.i, fr, token.NoPos, swap, []value{i, int(j)})
	}
	return nil
}
