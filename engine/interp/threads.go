package interp

// Bounded interleaving exploration (C12's concurrent half).
//
// vThreads2(maxPreempt, f1, f2) runs two harness closures as threads of a
// sequentially consistent machine whose only scheduling points are the
// synchronisation operations (sync.Mutex Lock/Unlock, sync/atomic loads,
// stores and compare-and-swaps, atomic.Value Load/Store).  For data-race-free
// code that is all the interleavings there are.  Each thread is interpreted on
// its own host goroutine, but only the holder of the baton runs; at every
// scheduling point the next thread is a fork of the path (an 8-bit "nondet"
// symbol, so that the native replay scheduler, which implements the same
// algorithm in zz_verif_sched.go, reads the same choice from the model).
// Pre-emptive switches are bounded by maxPreempt (CHESS-style); a switch
// forced by a blocked or finished thread is free.

import (
	"go/token"
	"runtime"
	"sync"
)

type thread struct {
	id          int
	fn          value
	wake        chan struct{}
	done        bool
	pendingLock *value // mutex state cell the thread is about to lock
	locksHeld   int
	top         *frame
	depth       int
}

type sched struct {
	threads    []*thread
	cur        int
	preempt    int
	maxPreempt int
	clock      int
	mainWake   chan struct{}
	err        interface{}
	hasErr     bool
	killed     bool
	wg         sync.WaitGroup
	switches   int
}

func mutexHeld(cell *value) bool {
	return cell != nil && (*cell).(int32) != 0
}

func (s *sched) enabled() []*thread {
	var out []*thread
	for _, t := range s.threads {
		if t.done {
			continue
		}
		if t.pendingLock != nil && mutexHeld(t.pendingLock) {
			continue
		}
		out = append(out, t)
	}
	return out
}

// choose picks the thread that performs the next synchronisation operation.
// cur is the thread that reached a scheduling point (nil at start / exit).
func (s *sched) choose(px *pathCtx, cur *thread) *thread {
	en := s.enabled()
	if len(en) == 0 {
		return nil
	}
	curEnabled := false
	for _, t := range en {
		if t == cur {
			curEnabled = true
		}
	}
	if curEnabled && s.preempt >= s.maxPreempt {
		return cur
	}
	if len(en) == 1 {
		return en[0]
	}
	sym := px.newSym("nondet", "sched", 8)
	a := &px.ar
	px.assume(a.Cmp(OpUlt, sym, a.Const(8, uint64(len(en)))))
	conds := make([]*Term, len(en))
	for k := range en {
		conds[k] = a.Eq(sym, a.Const(8, uint64(k)))
	}
	k := px.fork(conds)
	if curEnabled && en[k] != cur {
		s.preempt++
	}
	return en[k]
}

// syncPoint is called by the synchronisation externals before they act.
func (px *pathCtx) syncPoint(fr *frame, lockCell *value) {
	s := px.sched
	if s == nil || s.cur < 0 {
		return
	}
	s.clock++
	t := s.threads[s.cur]
	t.pendingLock = lockCell
	next := s.choose(px, t)
	if next == nil {
		px.violation("hang", "deadlock", "every unfinished thread waits for a held mutex", fr, nil)
		px.abort("deadlock", "all threads blocked")
	}
	if next != t {
		s.switchTo(px, t, next)
	}
	t.pendingLock = nil
}

func (s *sched) switchTo(px *pathCtx, from, to *thread) {
	from.top, from.depth, from.locksHeld = px.top, px.depth, px.locksHeld
	s.cur = to.id
	s.switches++
	px.top, px.depth, px.locksHeld = to.top, to.depth, to.locksHeld
	to.wake <- struct{}{}
	<-from.wake
	if s.killed {
		runtime.Goexit()
	}
	// whoever woke us has set cur and restored our px fields
}

// threadExit hands the baton on when a thread's closure returns.
func (s *sched) threadExit(px *pathCtx, t *thread) {
	t.done = true
	t.locksHeld = px.locksHeld
	all := true
	for _, u := range s.threads {
		if !u.done {
			all = false
		}
	}
	if all {
		s.cur = -1
		s.mainWake <- struct{}{}
		return
	}
	next := s.choose(px, nil)
	if next == nil {
		// remaining threads are blocked for ever
		defer func() {
			if r := recover(); r != nil {
				s.fail(r)
			}
		}()
		px.violation("hang", "deadlock", "a thread ended holding a mutex another thread waits for", nil, nil)
		px.abort("deadlock", "all threads blocked")
	}
	s.cur = next.id
	s.switches++
	px.top, px.depth, px.locksHeld = next.top, next.depth, next.locksHeld
	next.wake <- struct{}{}
}

func (s *sched) fail(r interface{}) {
	if !s.hasErr {
		s.err, s.hasErr = r, true
	}
	s.cur = -1
	s.mainWake <- struct{}{}
}

func extThreads2(fr *frame, args []value) value {
	px := fr.i.px
	if px.sched != nil && px.sched.cur >= 0 {
		px.abort("unsupported", "nested vThreads2")
	}
	s := &sched{maxPreempt: args[0].(int), mainWake: make(chan struct{}), cur: -1}
	px.sched = s
	mainTop, mainDepth, mainLocks := px.top, px.depth, px.locksHeld
	for k, f := range args[1:] {
		t := &thread{id: k, fn: f, wake: make(chan struct{}), top: px.top, depth: px.depth}
		s.threads = append(s.threads, t)
	}
	for _, t := range s.threads {
		t := t
		s.wg.Add(1)
		go func() {
			defer s.wg.Done()
			<-t.wake
			if s.killed {
				return
			}
			finished := false
			defer func() {
				if finished {
					return
				}
				r := recover()
				if s.killed {
					return // Goexit after kill
				}
				if r == nil {
					// runtime.Goexit from target code is not expected
					r = pathAbort{"engine", "thread ended abnormally"}
				}
				t.done = true
				s.fail(r)
			}()
			call(fr.i, fr, token.NoPos, t.fn, nil)
			finished = true
			func() {
				defer func() {
					if r := recover(); r != nil {
						s.fail(r)
					}
				}()
				s.threadExit(px, t)
			}()
		}()
	}
	// first thread to run
	var startErr interface{}
	func() {
		defer func() { startErr = recover() }()
		first := s.choose(px, nil)
		s.cur = first.id
		first.wake <- struct{}{}
	}()
	if startErr == nil {
		<-s.mainWake
	}
	// stop whatever is still parked
	s.killed = true
	s.cur = -1
	for _, t := range s.threads {
		select {
		case t.wake <- struct{}{}:
		default:
		}
	}
	// parked goroutines may not be at the receive yet when the non-blocking
	// send is tried; close the channels so that every receive returns
	for _, t := range s.threads {
		close(t.wake)
	}
	s.wg.Wait()
	px.top, px.depth, px.locksHeld = mainTop, mainDepth, mainLocks
	px.schedClockDone = s.clock
	if startErr != nil {
		panic(startErr)
	}
	if s.hasErr {
		panic(s.err)
	}
	return nil
}

func extClock(fr *frame, args []value) value {
	px := fr.i.px
	if px.sched != nil {
		return px.sched.clock
	}
	return 0
}
