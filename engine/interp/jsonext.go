package interp

// encoding/json for interpreted values: a type-driven mapper between the
// interpreter's boxed values and JSON text.  JSON *syntax* is handled by the
// real encoding/json (token stream); struct tags and field matching follow
// go/types; custom MarshalJSON / UnmarshalJSON methods of the code under
// test are called back symbolically.
//
// Symbolic integers travel through JSON text as *sentinel literals*: a
// 19-digit number that stands for the term (table per path).  The text stays
// concrete, so the byte-level joining and re-parsing the code under test does
// works unchanged; when a sentinel is decoded the term comes back.

import (
	"bytes"
	"encoding/json"
	"fmt"
	"go/token"
	"go/types"
	"math"
	"reflect"
	"sort"
	"strconv"
	"strings"
)

const jsonSentinelBase = int64(7700000000000000000)

func (px *pathCtx) jsonSentinel(t *Term) string {
	if px.jsonSent == nil {
		px.jsonSent = map[int64]*Term{}
		px.jsonSentRev = map[*Term]int64{}
	}
	if k, ok := px.jsonSentRev[t]; ok {
		return strconv.FormatInt(k, 10)
	}
	k := jsonSentinelBase + int64(len(px.jsonSent))*1000003
	px.jsonSent[k] = t
	px.jsonSentRev[t] = k
	return strconv.FormatInt(k, 10)
}

func init() {
	externals["encoding/json.Marshal"] = extJSONMarshal
	externals["encoding/json.Unmarshal"] = extJSONUnmarshal
	externals["encoding/json.Valid"] = func(fr *frame, a []value) value {
		return json.Valid(bytesOfValue(fr, a[0]))
	}
}

func bytesOfValue(fr *frame, v value) []byte {
	switch b := v.(type) {
	case []value:
		out := make([]byte, len(b))
		for i, x := range b {
			switch c := x.(type) {
			case byte:
				out[i] = c
			case symInt:
				out[i] = byte(fr.enumerate(c, 256))
			}
		}
		return out
	case ropeBytes:
		return []byte(concStr(fr, b.r))
	}
	return nil
}

func valueOfBytes(b []byte) value {
	out := make([]value, len(b))
	for i, c := range b {
		out[i] = c
	}
	return out
}

// ---------------------------------------------------------------------
// Marshal

type jsonErr struct{ msg string }

func extJSONMarshal(fr *frame, args []value) value {
	it := args[0].(iface)
	var sb strings.Builder
	var res value
	func() {
		defer func() {
			if r := recover(); r != nil {
				if je, ok := r.(jsonErr); ok {
					res = tuple{[]value(nil), fr.i.newError(je.msg)}
					return
				}
				panic(r)
			}
		}()
		if it.t == nil {
			sb.WriteString("null")
		} else {
			jsonEncode(fr, &sb, it.t, it.v, 0)
		}
		fr.i.px.workUnits += int64(sb.Len())
		res = tuple{valueOfBytes([]byte(sb.String())), iface{}}
	}()
	return res
}

func findMethod(fr *frame, T types.Type, name string) value {
	ms := fr.i.prog.MethodSets.MethodSet(T)
	for k := 0; k < ms.Len(); k++ {
		if ms.At(k).Obj().Name() == name {
			return fr.i.prog.MethodValue(ms.At(k))
		}
	}
	return nil
}

func isRawMessage(T types.Type) bool {
	n, ok := T.(*types.Named)
	return ok && n.Obj().Pkg() != nil && n.Obj().Pkg().Path() == "encoding/json" && n.Obj().Name() == "RawMessage"
}

func jsonEncode(fr *frame, sb *strings.Builder, T types.Type, v value, depth int) {
	if depth > 200 {
		panic(jsonErr{"json: unsupported value: encountered a cycle"})
	}
	if isRawMessage(T) {
		b := v.([]value)
		if b == nil {
			sb.WriteString("null")
			return
		}
		raw := bytesOfValue(fr, b)
		if !json.Valid(raw) {
			panic(jsonErr{"json: error calling MarshalJSON for type json.RawMessage: invalid JSON"})
		}
		var cb bytes.Buffer
		json.Compact(&cb, raw)
		sb.Write(cb.Bytes())
		return
	}
	// custom marshaller (value receiver method set of T)
	if _, isIface := T.Underlying().(*types.Interface); !isIface {
		if m := findMethod(fr, T, "MarshalJSON"); m != nil {
			if p, isPtr := v.(*value); isPtr && p == nil {
				sb.WriteString("null")
				return
			}
			out := call(fr.i, fr, token.NoPos, m, []value{v}).(tuple)
			if e, _ := out[1].(iface); e.t != nil {
				panic(jsonErr{"json: error calling MarshalJSON for type " + T.String() + ": " + ropeString(stringOf(fr, out[1], 'v'))})
			}
			raw := bytesOfValue(fr, out[0])
			if !json.Valid(raw) {
				panic(jsonErr{"json: error calling MarshalJSON for type " + T.String() + ": invalid JSON"})
			}
			var cb bytes.Buffer
			json.Compact(&cb, raw)
			sb.Write(cb.Bytes())
			return
		}
	}
	switch U := T.Underlying().(type) {
	case *types.Basic:
		switch x := v.(type) {
		case bool:
			sb.WriteString(strconv.FormatBool(x))
		case string:
			b, _ := json.Marshal(x)
			sb.Write(b)
		case *rope:
			b, _ := json.Marshal(concStr(fr, x))
			sb.Write(b)
		case float64:
			if math.IsNaN(x) || math.IsInf(x, 0) {
				panic(jsonErr{"json: unsupported value: " + strconv.FormatFloat(x, 'g', -1, 64)})
			}
			b, _ := json.Marshal(x)
			sb.Write(b)
		case float32:
			b, _ := json.Marshal(x)
			sb.Write(b)
		case symInt:
			px := fr.i.px
			t := x.t
			if kindSigned(x.k) {
				t = px.ar.SExt(t, 64)
			} else {
				t = px.ar.ZExt(t, 64)
			}
			sb.WriteString(px.jsonSentinel(t))
		case symFloat:
			// a float that is the conversion of a symbolic integer keeps
			// travelling as that integer's sentinel
			if x.t.op == OpFFromS && x.t.args[0].w == 64 {
				sb.WriteString(fr.i.px.jsonSentinel(x.t.args[0]))
				return
			}
			fr.i.px.abort("unsupported", "json.Marshal of a symbolic float")
		case symBool:
			if fr.i.px.forkBool(x.t) {
				sb.WriteString("true")
			} else {
				sb.WriteString("false")
			}
		default:
			if _, bits, ok := intKindOf(v); ok {
				if U.Info()&types.IsUnsigned != 0 {
					sb.WriteString(strconv.FormatUint(bits, 10))
				} else {
					sb.WriteString(strconv.FormatInt(int64(bits), 10))
				}
				return
			}
			panic(jsonErr{fmt.Sprintf("json: unsupported type: %s", T)})
		}
	case *types.Pointer:
		p := v.(*value)
		if p == nil {
			sb.WriteString("null")
			return
		}
		jsonEncode(fr, sb, U.Elem(), load(U.Elem(), p), depth+1)
	case *types.Interface:
		it := v.(iface)
		if it.t == nil {
			sb.WriteString("null")
			return
		}
		jsonEncode(fr, sb, it.t, it.v, depth+1)
	case *types.Struct:
		st := v.(structure)
		sb.WriteByte('{')
		first := true
		for i := 0; i < U.NumFields(); i++ {
			f := U.Field(i)
			if !f.Exported() {
				continue
			}
			name, omitempty, skip := jsonTag(U.Tag(i), f.Name())
			if skip {
				continue
			}
			if omitempty && jsonIsEmpty(st[i]) {
				continue
			}
			if !first {
				sb.WriteByte(',')
			}
			first = false
			kb, _ := json.Marshal(name)
			sb.Write(kb)
			sb.WriteByte(':')
			jsonEncode(fr, sb, f.Type(), st[i], depth+1)
		}
		sb.WriteByte('}')
	case *types.Slice:
		s := v.([]value)
		if s == nil {
			sb.WriteString("null")
			return
		}
		if b, ok := U.Elem().Underlying().(*types.Basic); ok && b.Kind() == types.Uint8 {
			eb, _ := json.Marshal(bytesOfValue(fr, s))
			sb.Write(eb)
			return
		}
		sb.WriteByte('[')
		for i, e := range s {
			if i > 0 {
				sb.WriteByte(',')
			}
			jsonEncode(fr, sb, U.Elem(), e, depth+1)
		}
		sb.WriteByte(']')
	case *types.Array:
		a := v.(array)
		sb.WriteByte('[')
		for i, e := range a {
			if i > 0 {
				sb.WriteByte(',')
			}
			jsonEncode(fr, sb, U.Elem(), e, depth+1)
		}
		sb.WriteByte(']')
	case *types.Map:
		m := v.(*omap)
		if m == nil {
			sb.WriteString("null")
			return
		}
		type kv struct {
			k string
			v value
		}
		var kvs []kv
		for _, e := range m.ents {
			if e.live {
				kvs = append(kvs, kv{concStr(fr, e.key), e.val})
			}
		}
		sort.Slice(kvs, func(i, j int) bool { return kvs[i].k < kvs[j].k })
		sb.WriteByte('{')
		for i, e := range kvs {
			if i > 0 {
				sb.WriteByte(',')
			}
			kb, _ := json.Marshal(e.k)
			sb.Write(kb)
			sb.WriteByte(':')
			jsonEncode(fr, sb, U.Elem(), e.v, depth+1)
		}
		sb.WriteByte('}')
	default:
		panic(jsonErr{fmt.Sprintf("json: unsupported type: %s", T)})
	}
}

func jsonTag(tag, fieldName string) (name string, omitempty, skip bool) {
	t := reflect.StructTag(tag).Get("json")
	if t == "-" {
		return "", false, true
	}
	parts := strings.Split(t, ",")
	name = parts[0]
	if name == "" {
		name = fieldName
	}
	for _, o := range parts[1:] {
		if o == "omitempty" {
			omitempty = true
		}
	}
	return
}

func jsonIsEmpty(v value) bool {
	switch x := v.(type) {
	case bool:
		return !x
	case string:
		return x == ""
	case []value:
		return len(x) == 0
	case *omap:
		return x.len() == 0
	case *value:
		return x == nil
	case iface:
		return x.t == nil
	case float64:
		return x == 0
	}
	if _, bits, ok := intKindOf(v); ok {
		return bits == 0
	}
	return false
}

// ---------------------------------------------------------------------
// Unmarshal

type jobj struct {
	keys []string
	vals []interface{}
}

func jsonParse(dec *json.Decoder) (interface{}, error) {
	tok, err := dec.Token()
	if err != nil {
		return nil, err
	}
	switch t := tok.(type) {
	case json.Delim:
		switch t {
		case '{':
			o := &jobj{}
			for dec.More() {
				kt, err := dec.Token()
				if err != nil {
					return nil, err
				}
				v, err := jsonParse(dec)
				if err != nil {
					return nil, err
				}
				o.keys = append(o.keys, kt.(string))
				o.vals = append(o.vals, v)
			}
			if _, err := dec.Token(); err != nil {
				return nil, err
			}
			return o, nil
		case '[':
			arr := []interface{}{}
			for dec.More() {
				v, err := jsonParse(dec)
				if err != nil {
					return nil, err
				}
				arr = append(arr, v)
			}
			if _, err := dec.Token(); err != nil {
				return nil, err
			}
			return arr, nil
		}
	}
	return tok, nil
}

func jsonRender(n interface{}) []byte {
	var sb bytes.Buffer
	var rec func(n interface{})
	rec = func(n interface{}) {
		switch x := n.(type) {
		case nil:
			sb.WriteString("null")
		case bool:
			sb.WriteString(strconv.FormatBool(x))
		case json.Number:
			sb.WriteString(string(x))
		case string:
			b, _ := json.Marshal(x)
			sb.Write(b)
		case []interface{}:
			sb.WriteByte('[')
			for i, e := range x {
				if i > 0 {
					sb.WriteByte(',')
				}
				rec(e)
			}
			sb.WriteByte(']')
		case *jobj:
			sb.WriteByte('{')
			for i := range x.keys {
				if i > 0 {
					sb.WriteByte(',')
				}
				b, _ := json.Marshal(x.keys[i])
				sb.Write(b)
				sb.WriteByte(':')
				rec(x.vals[i])
			}
			sb.WriteByte('}')
		}
	}
	rec(n)
	return sb.Bytes()
}

func jsonKindName(n interface{}) string {
	switch n.(type) {
	case nil:
		return "null"
	case bool:
		return "bool"
	case json.Number:
		return "number"
	case string:
		return "string"
	case []interface{}:
		return "array"
	case *jobj:
		return "object"
	}
	return "value"
}

func extJSONUnmarshal(fr *frame, args []value) value {
	data := bytesOfValue(fr, args[0])
	it := args[1].(iface)
	fr.i.px.workUnits += int64(len(data))
	if !json.Valid(data) {
		var dummy interface{}
		err := json.Unmarshal(data, &dummy)
		msg := "invalid JSON"
		if err != nil {
			msg = err.Error()
		}
		return fr.i.newError(msg)
	}
	pt, ok := it.t.Underlying().(*types.Pointer)
	if !ok || it.v.(*value) == nil {
		return fr.i.newError("json: Unmarshal(non-pointer " + fmt.Sprint(it.t) + ")")
	}
	dec := json.NewDecoder(bytes.NewReader(data))
	dec.UseNumber()
	node, err := jsonParse(dec)
	if err != nil {
		return fr.i.newError(err.Error())
	}
	var res value = iface{}
	func() {
		defer func() {
			if r := recover(); r != nil {
				if je, ok := r.(jsonErr); ok {
					res = fr.i.newError(je.msg)
					return
				}
				panic(r)
			}
		}()
		jsonAssign(fr, pt.Elem(), it.v.(*value), node, true)
	}()
	return res
}

// jsonAssign stores node into *dst of type T.  top marks the value the user
// passed to Unmarshal (its own UnmarshalJSON is honoured like any other).
func jsonAssign(fr *frame, T types.Type, dst *value, node interface{}, top bool) {
	px := fr.i.px
	if isRawMessage(T) {
		*dst = valueOfBytes(jsonRender(node))
		return
	}
	// custom unmarshaller on *T
	if _, isIface := T.Underlying().(*types.Interface); !isIface {
		if m := findMethod(fr, ptrTo(T), "UnmarshalJSON"); m != nil {
			if node == nil {
				if _, isPtr := T.Underlying().(*types.Pointer); isPtr {
					*dst = zero(T)
					return
				}
			}
			raw := valueOfBytes(jsonRender(node))
			out := call(fr.i, fr, token.NoPos, m, []value{dst, raw})
			if e, _ := out.(iface); e.t != nil {
				panic(jsonErr{ropeString(stringOf(fr, out, 'v'))})
			}
			return
		}
	}
	if node == nil {
		switch T.Underlying().(type) {
		case *types.Pointer, *types.Slice, *types.Map, *types.Interface:
			*dst = zero(T)
		}
		return
	}
	mismatch := func() {
		panic(jsonErr{fmt.Sprintf("json: cannot unmarshal %s into Go value of type %s", jsonKindName(node), T)})
	}
	switch U := T.Underlying().(type) {
	case *types.Pointer:
		p := (*dst).(*value)
		if p == nil {
			cell := zero(U.Elem())
			p = &cell
			*dst = p
		}
		jsonAssign(fr, U.Elem(), p, node, false)
	case *types.Interface:
		if U.NumMethods() != 0 {
			mismatch()
		}
		*dst = jsonToAny(fr, node)
	case *types.Basic:
		switch {
		case U.Kind() == types.Bool:
			b, ok := node.(bool)
			if !ok {
				mismatch()
			}
			*dst = b
		case U.Kind() == types.String:
			s, ok := node.(string)
			if !ok {
				mismatch()
			}
			*dst = s
		case U.Info()&types.IsInteger != 0:
			n, ok := node.(json.Number)
			if !ok {
				mismatch()
			}
			k := normKind(U.Kind())
			if iv, err := strconv.ParseInt(string(n), 10, 64); err == nil {
				if t, isSent := px.jsonSent[iv]; isSent {
					w := kindWidth(k)
					if w < 64 {
						// the real decoder range-checks; keep the in-range case
						px.assume(px.ar.Eq(px.ar.SExt(px.ar.Trunc(t, w), 64), t))
						*dst = wrapInt(px.ar.Trunc(t, w), k)
					} else {
						*dst = wrapInt(t, k)
					}
					return
				}
			}
			if U.Info()&types.IsUnsigned != 0 {
				uv, err := strconv.ParseUint(string(n), 10, int(kindWidth(k)))
				if err != nil {
					panic(jsonErr{fmt.Sprintf("json: cannot unmarshal number %s into Go value of type %s", n, T)})
				}
				*dst = mkInt(k, uv)
				return
			}
			iv, err := strconv.ParseInt(string(n), 10, int(kindWidth(k)))
			if err != nil {
				panic(jsonErr{fmt.Sprintf("json: cannot unmarshal number %s into Go value of type %s", n, T)})
			}
			*dst = mkInt(k, uint64(iv))
		case U.Info()&types.IsFloat != 0:
			n, ok := node.(json.Number)
			if !ok {
				mismatch()
			}
			if iv, err := strconv.ParseInt(string(n), 10, 64); err == nil {
				if t, isSent := px.jsonSent[iv]; isSent {
					ft := px.ar.mk(OpFFromS, 64, t)
					ft.isF = true
					*dst = symFloat{ft}
					return
				}
			}
			f, err := strconv.ParseFloat(string(n), 64)
			if err != nil {
				panic(jsonErr{fmt.Sprintf("json: cannot unmarshal number %s into Go value of type %s", n, T)})
			}
			*dst = f
		default:
			mismatch()
		}
	case *types.Struct:
		o, ok := node.(*jobj)
		if !ok {
			mismatch()
		}
		st := (*dst).(structure)
		for ki, key := range o.keys {
			fi := -1
			for i := 0; i < U.NumFields(); i++ {
				if !U.Field(i).Exported() {
					continue
				}
				name, _, skip := jsonTag(U.Tag(i), U.Field(i).Name())
				if !skip && name == key {
					fi = i
					break
				}
			}
			if fi < 0 {
				for i := 0; i < U.NumFields(); i++ {
					if !U.Field(i).Exported() {
						continue
					}
					name, _, skip := jsonTag(U.Tag(i), U.Field(i).Name())
					if !skip && strings.EqualFold(name, key) {
						fi = i
						break
					}
				}
			}
			if fi < 0 {
				continue
			}
			jsonAssign(fr, U.Field(fi).Type(), &st[fi], o.vals[ki], false)
		}
	case *types.Slice:
		if s, isStr := node.(string); isStr {
			if b, ok := U.Elem().Underlying().(*types.Basic); ok && b.Kind() == types.Uint8 {
				var raw []byte
				if err := json.Unmarshal([]byte(strconv.Quote(s)), &raw); err != nil {
					panic(jsonErr{err.Error()})
				}
				*dst = valueOfBytes(raw)
				return
			}
		}
		arr, ok := node.([]interface{})
		if !ok {
			mismatch()
		}
		out := make([]value, len(arr))
		for i := range out {
			out[i] = zero(U.Elem())
			jsonAssign(fr, U.Elem(), &out[i], arr[i], false)
		}
		px.workUnits += int64(len(out))
		*dst = out
	case *types.Array:
		arr, ok := node.([]interface{})
		if !ok {
			mismatch()
		}
		a := (*dst).(array)
		for i := range a {
			if i < len(arr) {
				jsonAssign(fr, U.Elem(), &a[i], arr[i], false)
			}
		}
	case *types.Map:
		o, ok := node.(*jobj)
		if !ok {
			mismatch()
		}
		m, _ := (*dst).(*omap)
		if m == nil {
			m = makeMap(U.Key(), 0).(*omap)
			*dst = m
		}
		for ki, key := range o.keys {
			cell := zero(U.Elem())
			jsonAssign(fr, U.Elem(), &cell, o.vals[ki], false)
			m.insert(key, cell)
		}
	default:
		mismatch()
	}
}

func jsonToAny(fr *frame, node interface{}) value {
	switch x := node.(type) {
	case nil:
		return iface{}
	case bool:
		return iface{types.Typ[types.Bool], x}
	case string:
		return iface{types.Typ[types.String], x}
	case json.Number:
		if iv, err := strconv.ParseInt(string(x), 10, 64); err == nil {
			if t, ok := fr.i.px.jsonSent[iv]; ok {
				ft := fr.i.px.ar.mk(OpFFromS, 64, t)
				ft.isF = true
				return iface{types.Typ[types.Float64], symFloat{ft}}
			}
		}
		f, _ := strconv.ParseFloat(string(x), 64)
		return iface{types.Typ[types.Float64], f}
	case []interface{}:
		out := make([]value, len(x))
		for i, e := range x {
			out[i] = jsonToAny(fr, e)
		}
		return iface{types.NewSlice(types.NewInterfaceType(nil, nil)), out}
	case *jobj:
		anyT := types.NewInterfaceType(nil, nil)
		m := makeMap(types.Typ[types.String], 0).(*omap)
		for i, k := range x.keys {
			m.insert(k, jsonToAny(fr, x.vals[i]))
		}
		return iface{types.NewMap(types.Typ[types.String], anyT), m}
	}
	return iface{}
}
