#!/bin/bash
# usage: check.sh <property> <quick|thorough>
cd "$(dirname "$0")"
[ -x bin/vcheck ] || ./setup.sh >/dev/null || exit 2
exec ./bin/vcheck -p "$1" -tier "$2"
