#!/bin/bash
# copy a seeded change from its worktree into /verif/seeded/<id>/
id=$1; wt=/tmp/wt_$id; d=/verif/seeded/$id
mkdir -p $d
cp $wt/SEED_patch.diff $d/patch.diff
cp $wt/zz_seed_demo_test.go $d/demo_test.go
cp $wt/SEED_README.md $d/README.md 2>/dev/null
echo collected $id
