#!/bin/bash
# usage: seed_eval.sh <seed-id> <property> [tier]
# confirms the seeded change (suite passes, demo fails with / passes without) and runs the property's check on it
export GOFLAGS=-mod=mod GOPROXY=off GOSUMDB=off GOTOOLCHAIN=local
id=$1; prop=$2; tier=${3:-quick}; d=/verif/seeded/$id
REPO=${REPO:-/repo}
cd $REPO || exit 2
git diff --quiet || { echo "/repo not clean"; exit 2; }
# demo passes without the change
cp $d/demo_test.go $REPO/zz_seed_demo_test.go
go test -vet=off -count=1 -run 'TestSeedDemo$' . >/tmp/seed_base.log 2>&1; base=$?
git apply $d/patch.diff || { rm -f $REPO/zz_seed_demo_test.go; echo "patch does not apply"; exit 2; }
go build ./... || { git checkout -- .; rm -f $REPO/zz_seed_demo_test.go; echo "BUILD FAIL"; exit 2; }
go test -vet=off -count=1 -run 'TestSeedDemo$' . >/tmp/seed_mut.log 2>&1; mut=$?
rm -f $REPO/zz_seed_demo_test.go
go test -vet=off -count=1 ./... >/tmp/seed_suite.log 2>&1; suite=$?
echo "seed $id: demo-without-change exit=$base demo-with-change exit=$mut suite-with-change exit=$suite"
cd /verif && ./bin/vcheck -repo $REPO -p $prop -tier $tier > /tmp/seed_check_$id.log 2>&1; chk=$?
git -C $REPO checkout -- .
echo "seed $id: check $prop/$tier exit=$chk"
grep -c "^VIOLATION" /tmp/seed_check_$id.log
grep "counterexample" /tmp/seed_check_$id.log | head -3 | cut -c1-220
tail -1 /tmp/seed_check_$id.log
