#!/bin/bash
# usage: seed_batch.sh <seed-id>... : collects each seed from /tmp/wt_<id> and evaluates it on a scratch clone (REPO, default /tmp/repo_mut)
export REPO=${REPO:-/tmp/repo_mut}
for id in "$@"; do
  prop=${id:0:3}
  /verif/tools/seed_collect.sh $id >/dev/null
  /verif/tools/seed_eval.sh $id $prop quick 2>&1 | tail -7 | sed "s/^/[$id] /"
done
