#!/usr/bin/env python3
"""Regenerates /verif/MANIFEST.json from the table below."""
import json, os

CLAIMED = {
 "C05": dict(
   text="Bounded model checking of the real Roll/_roll64 SSA: sides n is one 64-bit symbol over the whole supported range, every generator output a fresh symbol; seven obligations (acceptance bound multiple of n, accept iff below bound, result = accepted draw mod n + 1, draws only from the given source, mode switch) are discharged by SMT (wrapped-Int encoding, z3 5.1 + cvc5 portfolio); the rejection loop is cut inductively. Together with the counting lemma (also discharged) this gives exact uniformity for every n, which no statistical test can decide. VH_C05_vm carries the result to script level: a plain die d(nn) evaluated by the VM after other (clamped) dice terms, nn a 64-bit symbol, is exactly its own draw + 1.",
   note="Assumes generator outputs are i.i.d. uniform 64-bit values (PCG itself not modelled). Trusted: go/ssa, the gosymx interpreter and its loop-subsumption rule, the solvers, the three-line composition argument in DESIGN.md §5 C05. _roll32 (dead on 64-bit platforms) not covered.",
   technique="symbolic execution of go/ssa + SMT (z3/cvc5), inductive loop cut",
   ref="DESIGN.md §5 C05"),
}

CLAIMED["C04"] = dict(
   text="Bounded model checking of the real RollCommon / RollCoC / RollFate SSA with every die a symbolic value (Roll replaced by the contract C05 establishes): for all sides, keep/drop counts, min/max clamps (64-bit symbols) and all dice outcomes, the dice shown in the detail text are exactly the rolled (clamped) dice, the kept count follows the rule, kept dice are the extreme ones and the total is the sum of the kept dice; CoC result equals the best/worst candidate of the shown digits. The detail text is handled as a symbolic rope and parsed by the oracle. Through the VM syntax (VH_C04_vm): programs of two or three dice terms (14 x 6 term pairs in four arrangements) with every die symbolic: each term's value, the dice its annotation lists and the result are what the rule computes from that term's own dice and its own keep / drop / min / max parameters. VH_C04_realroll: RollCommon through the real sampler (no summary) with a symbolic side count in [1, 2^60]: every die shown and the total lie in the face range.",
   note="times <= 3 (quick) / 4 (thorough), CoC extra dice <= 2/3, magnitudes <= 2^40 so the true sum cannot overflow, min<=max when both given. VM-level parameter validation (VH_C04_params): 15 dice forms with parameters over {64-bit symbol, float, string, null}; legal-accept side limited to values <= 1000. WoD and Double Cross round loops (VH_C04_wod, VH_C04_dc): pool <= 3 (quick) / 4 (thorough), at most 6 / 9 dice over all rounds (longer explosions outside the claim), sides / threshold / add-line symbolic; Double Cross result claimed only for critical line <= 11 or above the sides. Trusted: Roll contract (C05), gosymx rope model of fmt/strconv, solvers.",
   technique="symbolic execution of go/ssa + SMT (wrapped-Int LIA), function summary for Roll",
   ref="DESIGN.md §5 C04")
CLAIMED["C15"] = dict(
   text="Bounded model checking (2-safety style): RollCommon, RollCoC and RollFate are executed under modes -1, 0, +1 with identical symbolic parameters; for all parameter values and all dice outcomes min <= random <= max is discharged by SMT, the XdY bounds are shown to be attained by all-lowest / all-highest faces, and modes +-1 are shown to consume no generator output. Through the VM (VH_C15_vm, mode set before Run or between Parse and RunAfterParsed): 19 programs monotone in their dice with the dice at top level, inside (nested) functions, computed values, a loop, a conditional and the default-sides expression (also one that depends on a variable changed between two bare dice): min/max runs consume no generator output, leave the generator state unchanged and give the expected attained bounds; the random run with symbolic dice is bracketed (SMT).",
   note="Same bounds as C04. Known finding recorded: CoC penalty dice in min-mode are not a lower bound (known_findings.json). VM-level programs are enumerated (19).",
   technique="symbolic execution of go/ssa + SMT, three-run relational harness",
   ref="DESIGN.md §5 C15")

CLAIMED["C01"] = dict(
   text="Bounded model checking of panic freedom through the public API: for each of ~130 program templates (one per opcode, builtin and method, 1-3 operands) the real parser and VM are executed symbolically with the operands ranging over every script value kind and 64-bit / Float64 payloads as solver symbols; every Go panic site (type assertion, index, slice bounds, nil dereference, division, make) on every feasible path is a verification condition, observers (ToString, ToRepr, detail text twice, bytecode listing, Matched/RestInput) included; capacity boundaries (nesting 19..22, 511..513 elements, code cap, parse budget, recursion under an op budget, and endless recursion through code compiled on demand - default-sides expressions, host-built function / computed values, RunExpr - which must end with the budget error within 4000 Go frames) as concrete programs; self-referential values (9 constructions x 36 operations, hang and stack depth count); histories on one VM (a program that records process-text spans, then a failing / shorter / longer text through Run or through Parse + RunAfterParsed, thorough: then a third) with all observers after every step; every 3 / 4 byte text over a bracket / newline alphabet with the real error formatter; and every source text of 2 (quick) / 3 (thorough) bytes over all 256 byte values, run twice and observed under 4 configurations. A panic is reported only after native replay of the solver's model.",
   note="Quick: scalar operand kinds, no prior-state run; thorough: containers/computed/function operands (depth 1, <=2 elements) and a second Run on the same VM. Loops with symbolic trip count unrolled 3 times, symbolic-size allocations followed to 8 elements (cuts counted in evidence). Source text is concrete per template; symbolic source text is 2 / 3 arbitrary bytes here (VH_C01_src) and up to 5 bytes over restricted alphabets in the C03/C08/C13/C16/C19 harnesses (a panic found there is reported under that property). Dice are Roll-contract values (C05). Float text rendering is opaque. Hangs are reported as step-limit aborts (reduced), not as violations.",
   technique="symbolic execution of go/ssa (parser + VM) + SMT panic-site VCs",
   ref="DESIGN.md §5 C01")
CLAIMED["C06"] = dict(
   text="(1) Provenance as a footprint claim: 40 programs covering every dice family, the random array methods and every calling context (function, computed value, template hole, container, condition, loop, default-sides expression) run on a seeded VM with the generator stubbed; on every path every generator output is logged with its receiver and must come from the context's generator, none from the package generator. (2) For all 128-bit generator states (two 64-bit symbols) GetCurSeed / Seed / Init round-trip the state exactly (x/exp/rand's Marshal/UnmarshalBinary interpreted), and re-seeding a context from equal bytes after its generator moved rewinds it. (3) Result and process text are compared under two opposite Go-map iteration orders. (4) The real sampler with a symbolic side count: every draw of a die, including re-draws after any number of rejections, is taken from the generator passed in.",
   note="PCG's step function is not encoded (equal states give equal futures because Uint64 is a function of the state). Dice values are fixed low faces in (1): provenance does not depend on values. Known findings recorded: dict enumeration / printing order follows Go map order.",
   technique="symbolic execution of go/ssa + SMT; draw-receiver footprint; map-order relational run",
   ref="DESIGN.md §5 C06")
CLAIMED["C12"] = dict(
   text="Sequential half: (a) inductive step - from every representation state over two keys satisfying the ValueMap invariant (read/dirty/expunged/amended/misses) one operation of each kind (Store, Load, LoadOrStore, LoadAndDelete, Delete, Clear, Range, Range-with-stop, Length) with key in {a,b,c} gives the results of the abstract map and re-establishes the invariant, which covers histories of any length; (b) all operation sequences of length 3 (quick) / 4 (thorough) over 3 keys from the empty map against a Go map. Concurrent half (bounded): two threads on one ValueMap started in any invariant state over two keys, thread A doing 1 (quick) / 2 (thorough) operations and thread B one, from {Store, Load, LoadOrStore, LoadAndDelete, Delete} x {a,b} and {Clear, Length}; the engine interprets both threads and explores every sequentially consistent interleaving whose scheduling points are the mutex and atomic operations, with at most 1 (quick) / 2 (thorough) pre-emptive context switches, each scheduling choice a fork of the path; the recorded history (results, invocation/response times) must be linearizable w.r.t. a Go map, the quiescent contents (Length, Load, Range) must be those of that linearization and the invariant must hold again. Counterexample schedules are re-enacted natively on the real code (valuemap.go overlaid with scheduler hooks at its synchronisation operations).",
   note="Concurrent half: bounded by thread count (2), operations (<= 3), keys (2) and pre-emptions; interleaving only at synchronisation operations is exhaustive for data-race-free code under sequential consistency - data-race freedom of ValueMap is an assumption here (supported by the C11 footprint and go test -race, not decided), weak-memory effects are outside. Concurrent Range, and Length against two concurrent writers, are not atomic snapshots by design (as sync.Map.Range) and are outside the claim. misses is a solver symbol (sequential) / 0..2 (concurrent); values are distinct pointers. Trusted: INV_map as written in the harness (cross-checked by (b)).",
   technique="symbolic execution of go/ssa; inductive invariant step + bounded history enumeration + pre-emption-bounded interleaving exploration (scheduling choices as path forks) with a linearizability oracle",
   ref="DESIGN.md §5 C12")

CLAIMED["C16"] = dict(
   text="Bounded model checking over symbolic source text: every input of n bytes (quick: 2 bytes over all of ASCII and 3 bytes over the dice alphabet; thorough: 3 / 4) runs through the real PEG engine with the configuration flags as symbolic booleans; for each accepted path the compiled bytecode (including nested function / computed bodies) is inspected and 'a family / statement / operator opcode is present' implies 'its flag admits it' is a verification condition decided by SMT for all flag values. Macro harness: #EnableDice macros in every position with symbolic initial flags leave Config unchanged and do not leak into the next evaluation, whether that is parsed at top level, compiled on demand through RunExpr directly after the macro run, or a bare d using one of 6 default-sides expressions (compared with a VM of the same configuration that never saw a macro). Re-parse harness: 11 texts parsed with everything enabled and parsed again, byte-identical, on the same VM after all seven flags became symbolic booleans: the second compilation obeys the new flags. st harness: parenthesised values in 8 positions of ^st commands (where the grammar pushes and pops the parser's copy of the flags) holding 14 gated constructs or 2 / 3 symbolic bytes, flags symbolic.",
   note="Inputs longer than n bytes are outside the claim (the 20-byte macro cannot occur in them, so 'lacking an enabling macro' holds trivially; macros are covered by the concrete macro programs). Flags are symbolic in two groups (Enable* or Disable*), not all seven at once. Syntax-error formatting is stubbed in the gate harnesses (covered by C19).",
   technique="symbolic execution of the PEG parser on symbolic bytes + SMT over flag booleans",
   ref="DESIGN.md §5 C16")

CLAIMED["C19"] = dict(
   text="Bounded model checking over symbolic source text: every input of n bytes (4 quick / 5 thorough) over an alphabet with newlines, quotes, operators and two multi-byte runes runs through the real parser; on every rejecting path the reported offset lies in the input and (line, column) equal the oracle's line/column of that offset (runes as Go decodes them). fmtErr is executed on symbolic input bytes with symbolic line/column and the three language settings: header and position lines are in the configured language only, the quoted line is the reported line, the caret has column-1 spaces before it. Long lines (56..70 bytes) with a symbolic column: caret within the quoted text. Cross-VM (VH_C19_cross): two VMs with different language settings used in turn (A, B, A) on 4 / 6 ill-formed sources met as the program, as an on-demand expression (RunExpr) or as the default-sides expression: every message is in the producing VM's language only and an error value kept by the host reads the same afterwards. Custom dice (VH_C19_custom): 12 texts in which a registered regex / stream syntax consumes multi-byte or multi-line text before the error: offset, line and column by the same oracle.",
   note="Cross-VM independence of the language choice under concurrency is a shared-state question decided by C11's footprint check; the sequential part is VH_C19_cross here. Inputs longer than n bytes are outside the claim. Known findings recorded: an error at a newline byte is reported as (next line, column 0); the caret is not moved when a long line is truncated.",
   technique="symbolic execution of the PEG parser and error formatter on symbolic bytes + SMT",
   ref="DESIGN.md §5 C19")

CLAIMED["C08"] = dict(
   text="Bounded model checking over symbolic source text: every accepted input of n bytes (3 quick / 4 thorough) over a punctuation-rich alphabet, plus 48 programs composing every control construct, is compiled by the real parser; the emitted bytecode and every nested function / computed body is then explored along ALL control-flow paths (both outcomes of every conditional jump) by an abstract stack-height machine that checks operand types (unpatched jumps), jump targets, stack underflow, equal numbers of open blocks at every arrival, and that annotation / dice state is set up before use. For the programs the loops are recovered from the backward jumps and the number of jumps to the instruction after a loop's end / back to a loop's head must equal the number of break / continue statements written (an unpatched break is a well-typed jump to the next instruction).",
   note="The oracle is a bytecode verifier written from the VM's dispatch loop (stack effect per opcode); the real dispatch loop itself is exercised by the C01 harnesses. Inputs longer than n bytes outside the corpus are not covered. Known findings recorded: je.dup left unpatched after an abandoned '||' alternative; continue/break inside if leak a block slot.",
   technique="symbolic execution of the PEG parser on symbolic bytes + abstract interpretation of the emitted bytecode",
   ref="DESIGN.md §5 C08")
CLAIMED["C13"] = dict(
   text="Bounded model checking over symbolic text: texts of n code points (3 quick / 4 thorough) over an alphabet of all four delimiters, backslash, braces, percent, control characters and multi-byte runes are escaped by the documented rules and run through the real parser and VM in the four quote styles; 'the literal evaluates to exactly the text' is a byte-wise SMT verification condition. Templates with two holes (8 kinds of embedded code) and symbolic literal segments: value is the in-order concatenation, embedded assignments take effect, one value is left on the stack; nesting depth 1..21, also with a statement block assigning a variable at every level (text, every variable, no other). Holes over variables (array, dict, string, symbolic integers), all pairs / triples incl. the same container shown twice: the value is the concatenation of the segments and each hole's string form as evaluated alone.",
   note="The template delimiter itself cannot be written inside its own template style (no escape exists) and is excluded there. An if-block hole contributes no text (pinned by the test suite).",
   technique="symbolic execution of parser + VM on symbolic bytes + SMT string equality",
   ref="DESIGN.md §5 C13")

CLAIMED["C18"] = dict(
   text="Bounded model checking of the st command: lists of 1..2 (quick) / 3 (thorough) attribute edits built from every accepted spelling (11 assignment spellings incl. quoted / namespaced names, '*' and '*k' multipliers, parenthesised values; 7 modification spellings for + += - -=) and 4 separators, with the numeric values as symbolic decimal digits, run through the real parser and VM; the callback log (count, order, kind, name, operator, value, multiplier) is compared with the written list as SMT verification conditions over the digit symbols. Modification amounts that are variables or parenthesised expressions over a 64-bit symbol of either sign (VH_C18_modify_expr). Lists whose second assignment has a parenthesised bitwise / dice value after a plain, computed, multiplier or parenthesised first edit (VH_C18_paren). Long lists (3..4 quick, 3..6 thorough edits) with the first spelling and separator symbolic choices and the following ones taken in rotation.",
   note="Values are 1-2 digit integers (dice, floats and general expressions as values are covered only through the parenthesised form); lists longer than 6 edits, and the full spelling product beyond 2 (quick) / 3 (thorough) edits, are outside. 'Nothing else is reinterpreted as an edit' is checked only as 'the number of callbacks equals the number of written edits and the list is consumed entirely'.",
   technique="symbolic execution of parser + VM with symbolic digit bytes + SMT",
   ref="DESIGN.md §5 C18")

CLAIMED["C03"] = dict(
   text="Bounded model checking over symbolic tails: for 36 valid programs (one per statement / expression form) every 2-byte tail (quick: 34 representative bytes; thorough: all of ASCII) is appended and the input runs through the real parser and VM; on every accepting path Matched+RestInput == input and Matched has no trailing space are SMT verification conditions over the tail bytes, and a second VM evaluates Matched alone: value text, process text and variables must equal those of the full input and Matched must be consumed entirely. The same oracle on 6 programs x every 4 / 5 byte tail over a bracket alphabet, on 4 programs x 4 separators x 19 broken-off statements, and on 8 programs x 9 tails with CR LF / CR / LF inside and after the program.",
   note="Dice in min mode (no randomness). Tails longer than 2 bytes are outside the claim. Many genuine findings of one root cause are recorded (code emitted by an abandoned PEG alternative survives): identified by failure kind, assertion and the first byte of the text given back; the process-text comparison is recorded as one class.",
   technique="symbolic execution of parser + VM on symbolic tail bytes; relational (two-run) harness",
   ref="DESIGN.md §5 C03")

CLAIMED["C02"] = dict(
   text="Differential bounded model checking against a definitional semantics executed by the same engine on the same symbols: (a) sixteen binary operators x {int, float} operand kinds with 64-bit / Float64 payloads as solver symbols and IgnoreDiv0 both ways, evaluated through the real parser and VM and compared with a reference written from the language guide (value, result type, or 'error prescribed'); (a') the same operators with at least one operand a string, array, null or dict (type errors whatever the other operand's value - also a zero divisor under IgnoreDiv0 -, string / array concatenation, array repetition with boundary counts, structural == / !=, operand-yielding && || ??); (a'') operator chains 'a op1 b op2 c' for all 256 ordered operator pairs (thorough: all 4096 triples with a fourth operand), operands 64-bit symbols, optionally negated, with and without blanks, against a token-level transliteration of the published grammar's expression layers (value, error, and the text the grammar leaves unconsumed); (a''') 14 programs with several dice terms under DiceMinMode / DiceMaxMode against the prescribed values; (b) 90 programs covering precedence, grouping, short-circuit operators, ternary / multi-arm conditions, if / else-if, while with break / continue (also nested, with break / continue before the inner loop), functions and scoping, computed values, aliasing, negative indices, slices and slice assignment, container equality, whitespace variants and an erroring statement, with integer variables as 64-bit symbols and a reference closure each, evaluated twice on the same VM and followed by an expression compiled on demand (RunExpr), also after a failed run.",
   note="Power (**) is uninterpreted; programs are enumerated (the solver quantifies over the variable values, not over program shapes); Float equality modulo NaN payload. Dice are covered under min / max mode only (random dice: C04/C15). Known defects fixed: dict equality after enumeration, integer sum through float64, index then ==, RunExpr reporting the error of an earlier failed run. The chain reference does not assert an error that arises only in the right operand of && whose left operand is false (evaluation of that operand is not documented either way).",
   technique="differential symbolic execution (implementation vs reference) + SMT (BV + FP)",
   ref="DESIGN.md §5 C02")

CLAIMED["C07"] = dict(
   text="Bounded checking of the budget mechanisms by symbolic execution with a step limit: 21 adversarial programs (endless loops, unbounded and exponential recursion, self-referential computed value, huge dice counts incl. counts that would wrap the counter, a function reading a costly computed value in a loop, doubling containers and strings, huge range, exploding pools) under budgets {200, 30000} and dice modes {random, min, max} must end within the step limit with the budget error or a value, and the number of dice actually rolled never exceeds the budget; 14 straight-line programs: the counter covers every instruction and every generator output, also across function / computed-value sub-VMs, and is never negative; capacity boundaries (8192 instructions at top level, inside function / computed bodies and in source compiled on demand - host-built or JSON-decoded computed / function values, the default-sides expression, RunExpr - evaluated twice through the same value, with the term count around the limit, 512 elements for literals / ranges / concatenation / repetition, 1000 stack slots, parse budget, recursion) : complete value or error, never a truncated result; and for 12 programs of finite cost K (7..200 operations, measured by an unlimited run) the budget L is a 64-bit solver symbol: for every L the run fails only if L < K + 100 x call depth and succeeds only if L >= K, with exactly the unlimited run's value and count (VH_C07_exact).",
   note="Programs are enumerated (concrete); what is decided per program is a bound observed on the symbolic run (only sizes / counts are solver symbols), not a verdict over symbolic programs - the weakest of the checks in solver terms. Dice are fixed low faces (roll-log stub). Hang = 120M interpreter steps without result, confirmed natively with a 20 s timeout. Known finding: exploding dice never terminate in max-mode.",
   technique="symbolic execution of go/ssa with a step limit over enumerated adversarial programs; sizes and counts as solver symbols",
   ref="DESIGN.md §5 C07")

CLAIMED["C10"] = dict(
   text="Bounded model checking of the real UnmarshalJSON code with symbolic documents: 40 value-document shapes and 9 variable-map shapes (well-typed, ill-typed, missing / null fields, nested nulls, unknown native names and names of built-in type methods such as Array.sum, wrong container kinds, scalars) whose type tags and numbers are 64-bit solver symbols, so every known and unknown tag is a case of the decoder's switch; every successfully decoded value then goes through printing, repr, truthiness, equality, clone, re-serialisation, dict-key use, comparison with a second decoding of the same document (alone, in arrays, in dicts) and scripts that index, call, negate, compare, iterate and roll with it; every Go panic site on every feasible path is a verification condition, stack exhaustion counts as a crash.",
   note="JSON syntax and struct-tag mapping are the engine's model of encoding/json (real tokenizer, type-driven mapper that calls the code's own UnmarshalJSON methods back); symbolic numbers travel as sentinel literals. Documents outside the 49 shapes (deeper nesting, other field combinations) are outside the claim. Defects found and fixed: unknown native names / tags, null elements, null variables, native-object shells.",
   technique="symbolic execution of the decoder and VM with symbolic type tags + SMT panic-site VCs",
   ref="DESIGN.md §5 C10")

CLAIMED["C09"] = dict(
   text="Bounded model checking of snapshot/restore through the real ToJSON / UnmarshalJSON code: (a) every value tree of depth <= 2 (containers of 0..2 elements; integers as 64-bit solver symbols, representative finite floats, JSON-hostile strings, null, arrays, dicts, computed values with attributes, functions, native functions, also a container referenced twice) round-trips to a structurally equal value with equal repr, alone and inside a variable map; (b) every reference-cycle shape over <= 2 container nodes and non-finite floats give an error, never a crash (stack exhaustion counts) or a document; (c) a 10-statement program over a symbolic integer (incl. a self-recursive and two mutually recursive functions, a computed value calling them, and a function and a computed value using the optional dice families) is snapshotted after every statement prefix, restored into a fresh VM, and 18 follow-up programs (the recursive functions are first called after the restore) give the same value, error status and process text on both VMs.",
   note="encoding/json is the engine's model (real tokenizer + type-driven mapper calling the code's own methods; symbolic integers travel as sentinel literals, so integer text formatting/parsing itself is trusted). Floats are concrete representatives. Defect found and fixed: cycles through a dict overflowed the stack.",
   technique="symbolic execution of serialiser, decoder and VM + SMT; relational original-vs-restored harness",
   ref="DESIGN.md §5 C09")

CLAIMED["C11"] = dict(
   text="Decided as non-interference, not by exploring schedules: 21 API entry-point scenarios (each NewVM + Run + every observer + JSON snapshot on a fresh VM, covering syntax errors in two languages, seeded and unseeded dice, bound methods, functions, computed values, templates, dict methods, builtins, random array methods, st, default-sides dice, run-time errors) are executed symbolically with every memory cell reachable from a package-level variable of dicescript and x/exp/rand marked; any plain (unlocked, non-atomic) store to a marked cell on any explored path is a finding. W = {} implies that VMs sharing no values can only meet on immutable data, hence no data race and isolated results. Each finding is confirmed natively by running the scenario on two goroutines under go test -race. Second harness (sequential non-interference): for every ordered pair of the scenarios on two VMs, everything observable of the finished VM A is unchanged after VM B ran and A's next evaluation (a program, or for three scenarios an expression compiled on demand through RunExpr, two of them ill-formed so that the error text is compared) equals that of a VM of the same configuration that did the same evaluations before B existed in the process; sync.Pool is modelled as a LIFO free list so pooled buffers are seen as shared.",
   note="Sufficient, not necessary (a benign shared write would be reported). Interleavings are not explored; atomics and stores under a mutex are treated as synchronised. The generator stub records state writes of PCGSource. Known findings recorded: parseErrorLanguage is process-global (also the root of C19's cross-VM language leak), unseeded VMs share randSource.",
   technique="symbolic execution with shared-memory footprint tracking; race detector only as replay confirmation",
   ref="DESIGN.md §5 C11")

CLAIMED["C17"] = dict(
   text="Relational bounded model checking: 24 programs (arithmetic, variables, containers, templates, control flow, functions, computed values, every dice family, syntax errors, identifiers that begin like the custom trigger) with integer variables as 64-bit solver symbols are evaluated plain and with inert extension points in all 7 combinations of {never-matching regex and stream dice incl. a parser that reads ahead and declines and two patterns that match only the empty text, identity load/store hooks, identity detail rewriters}; value, error text, process text, rest / matched text and variables must be identical (SMT equality over the symbols). Matching case: a custom syntax registered as regex and as stream parser, in 10 programs: handler (which overwrites its groups argument after reading it) runs once per evaluation of the operand, receives exactly the matched text every time, result used by copy. Stream syntax returning explicit groups in storage it reuses, 1-3 operands per program: each handler call receives that operand's text and groups.",
   note="regexp is executed natively on concrete text. Programs are enumerated; symbolic source text with custom dice is not explored. Known finding recorded: custom dice are rejected inside look-ahead-guarded constructs such as array literals.",
   technique="relational symbolic execution (plain vs instrumented VM) + SMT",
   ref="DESIGN.md §5 C17")

CLAIMED["C14"] = dict(
   text="Bounded model checking of the calculation-process text as a symbolic string: 31 arithmetic expressions (incl. nested and chained dice) over dice terms of every family (dice = symbolic Roll-contract values), integer literals and a multi-byte identifier bound to a symbolic integer, with spacing / tab / line-break variants, run through the real parser, VM and makeDetailStr; the text is a rope whose numbers are solver terms; the oracle deletes the [..] annotations, evaluates the remaining arithmetic over those terms and requires equality with the result, and requires every XdY annotation's value to equal the sum of the kept dice it lists (SMT verification conditions over all dice outcomes). GetDetailText twice gives the same text and leaves result, variables and generator log unchanged.",
   note="Expressions are enumerated (31); annotations of CoC / Fate / WoD / DC terms are only required to sit next to the right value, their inner text makes no claim. Abbreviated annotations ([..] longer than 400 bytes) cannot occur at these sizes. Host rewrite hooks are identity (C17).",
   technique="symbolic execution with symbolic strings (ropes) + SMT over dice symbols",
   ref="DESIGN.md §5 C14")

NA = {
}

ALL = ["C%02d" % i for i in range(1, 20)]

def main():
    checks = []
    for pid in ALL:
        if pid not in CLAIMED:
            continue
        c = CLAIMED[pid]
        checks.append({
            "property_id": pid,
            "quick_cmd": "./check.sh %s quick" % pid,
            "thorough_cmd": "./check.sh %s thorough" % pid,
            "evidence_file": "/verif/evidence/%s.json" % pid,
            "replay_cmd_template": "./bin/vcheck -replay {path}",
            "engine": "gosymx",
            "level_claimed": {"category": "model_checking", "text": c["text"], "design_ref": c["ref"]},
            "level_note": c["note"],
            "technique": c["technique"],
        })
    na = []
    for pid in ALL:
        if pid in CLAIMED:
            continue
        na.append({"property_id": pid, "reason": NA.get(pid, "check not built yet in this round (engine exists; harness pending) — see DESIGN.md §5")})
    m = {
        "version": 1,
        "setup_cmd": "./setup.sh",
        "hooks": {
            "guard": "verif",
            "enable": "harness files are overlaid into /repo at check time (go/packages Overlay, go test -overlay) with -tags verif; nothing is committed to /repo for instrumentation",
            "baseline_off_cmd": "cd /repo && go test -vet=off -count=1 ./...",
            "source_commits": [],
            "add_only": True,
        },
        "engines": [{
            "name": "gosymx",
            "path": "/verif/engine",
            "serves_properties": sorted(CLAIMED.keys()),
            "kind_free_text": "symbolic interpreter for go/ssa (fork of x/tools go/ssa/interp with symbolic scalars and ropes), path exploration by re-execution, SMT-LIB2 to z3 4.8.12 / z3 5.1 / cvc5 (bit-vector and wrapped-Int encodings), native replay of every counterexample",
        }],
        "checks": checks,
        "not_applicable": na,
        "notes": "All checks rebuild the SSA from /repo's working tree on every run. Bounds, stubs and assumptions are written to the evidence file by the check itself.",
    }
    with open(os.path.join(os.path.dirname(__file__), "..", "MANIFEST.json"), "w") as f:
        json.dump(m, f, indent=1, ensure_ascii=False)
        f.write("\n")

main()
