#!/usr/bin/env python3
"""Regenerates /verif/MANIFEST.json from the table below."""
import json, os

CLAIMED = {
 "C05": dict(
   text="Bounded model checking of the real Roll/_roll64 SSA: sides n is one 64-bit symbol over the whole supported range, every generator output a fresh symbol; seven obligations (acceptance bound multiple of n, accept iff below bound, result = accepted draw mod n + 1, draws only from the given source, mode switch) are discharged by SMT (wrapped-Int encoding, z3 5.1 + cvc5 portfolio); the rejection loop is cut inductively. Together with the counting lemma (also discharged) this gives exact uniformity for every n, which no statistical test can decide.",
   note="Assumes generator outputs are i.i.d. uniform 64-bit values (PCG itself not modelled). Trusted: go/ssa, the gosymx interpreter and its loop-subsumption rule, the solvers, the three-line composition argument in DESIGN.md §5 C05. _roll32 (dead on 64-bit platforms) not covered.",
   technique="symbolic execution of go/ssa + SMT (z3/cvc5), inductive loop cut",
   ref="DESIGN.md §5 C05"),
}

CLAIMED["C04"] = dict(
   text="Bounded model checking of the real RollCommon / RollCoC / RollFate SSA with every die a symbolic value (Roll replaced by the contract C05 establishes): for all sides, keep/drop counts, min/max clamps (64-bit symbols) and all dice outcomes, the dice shown in the detail text are exactly the rolled (clamped) dice, the kept count follows the rule, kept dice are the extreme ones and the total is the sum of the kept dice; CoC result equals the best/worst candidate of the shown digits. The detail text is handled as a symbolic rope and parsed by the oracle.",
   note="times <= 3 (quick) / 4 (thorough), CoC extra dice <= 2/3, magnitudes <= 2^40 so the true sum cannot overflow, min<=max when both given. WoD and Double Cross round loops and the VM-level parameter validation are covered by the C01/C07 harnesses only as far as stated there. Trusted: Roll contract (C05), gosymx rope model of fmt/strconv, solvers.",
   technique="symbolic execution of go/ssa + SMT (wrapped-Int LIA), function summary for Roll",
   ref="DESIGN.md §5 C04")
CLAIMED["C15"] = dict(
   text="Bounded model checking (2-safety style): RollCommon, RollCoC and RollFate are executed under modes -1, 0, +1 with identical symbolic parameters; for all parameter values and all dice outcomes min <= random <= max is discharged by SMT, the XdY bounds are shown to be attained by all-lowest / all-highest faces, and modes +-1 are shown to consume no generator output.",
   note="Same bounds as C04. Known finding recorded: CoC penalty dice in min-mode are not a lower bound (known_findings.json). Sums/products of terms through the VM are not yet covered.",
   technique="symbolic execution of go/ssa + SMT, three-run relational harness",
   ref="DESIGN.md §5 C15")

NA = {
}

ALL = ["C%02d" % i for i in range(1, 20)]

def main():
    checks = []
    for pid in ALL:
        if pid not in CLAIMED:
            continue
        c = CLAIMED[pid]
        checks.append({
            "property_id": pid,
            "quick_cmd": "./check.sh %s quick" % pid,
            "thorough_cmd": "./check.sh %s thorough" % pid,
            "evidence_file": "/verif/evidence/%s.json" % pid,
            "replay_cmd_template": "./bin/vcheck -replay {path}",
            "engine": "gosymx",
            "level_claimed": {"category": "model_checking", "text": c["text"], "design_ref": c["ref"]},
            "level_note": c["note"],
            "technique": c["technique"],
        })
    na = []
    for pid in ALL:
        if pid in CLAIMED:
            continue
        na.append({"property_id": pid, "reason": NA.get(pid, "check not built yet in this round (engine exists; harness pending) — see DESIGN.md §5")})
    m = {
        "version": 1,
        "setup_cmd": "./setup.sh",
        "hooks": {
            "guard": "verif",
            "enable": "harness files are overlaid into /repo at check time (go/packages Overlay, go test -overlay) with -tags verif; nothing is committed to /repo for instrumentation",
            "baseline_off_cmd": "cd /repo && go test -vet=off -count=1 ./...",
            "source_commits": [],
            "add_only": True,
        },
        "engines": [{
            "name": "gosymx",
            "path": "/verif/engine",
            "serves_properties": sorted(CLAIMED.keys()),
            "kind_free_text": "symbolic interpreter for go/ssa (fork of x/tools go/ssa/interp with symbolic scalars and ropes), path exploration by re-execution, SMT-LIB2 to z3 4.8.12 / z3 5.1 / cvc5 (bit-vector and wrapped-Int encodings), native replay of every counterexample",
        }],
        "checks": checks,
        "not_applicable": na,
        "notes": "All checks rebuild the SSA from /repo's working tree on every run. Bounds, stubs and assumptions are written to the evidence file by the check itself.",
    }
    with open(os.path.join(os.path.dirname(__file__), "..", "MANIFEST.json"), "w") as f:
        json.dump(m, f, indent=1, ensure_ascii=False)
        f.write("\n")

main()
