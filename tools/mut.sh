#!/bin/bash
# usage: tools_mut.sh <prop> <tier> <python-replace-old> <python-replace-new> <file>
# applies a textual mutation to /repo, runs the check, reverts.
prop=$1; tier=$2; old=$3; new=$4; file=$5
python3 - "$old" "$new" "${REPO:-/repo}/$file" <<'PY'
import sys
old,new,p=sys.argv[1:4]
s=open(p).read()
assert s.count(old)>=1, "pattern not found"
s=s.replace(old,new,1)
open(p,'w').write(s)
PY
[ $? -eq 0 ] || exit 3
(cd ${REPO:-/repo} && go build ./... ) || { git -C ${REPO:-/repo} checkout -- .; echo BUILD-FAIL; exit 3; }
/verif/bin/vcheck -repo ${REPO:-/repo} -p $prop -tier $tier 2>&1 | grep -v "^harness\|^  " | tail -8
git -C ${REPO:-/repo} checkout -- .
