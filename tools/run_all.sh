#!/bin/bash
# usage: run_all.sh <tier> [props...] : runs checks from the directory this script lives in
tier=${1:-quick}; shift
base=$(cd "$(dirname "$0")/.." && pwd)
cd "$base"
[ -x bin/vcheck ] || ./setup.sh >/dev/null || exit 2
props=${@:-C01 C02 C03 C04 C05 C06 C07 C08 C09 C10 C11 C12 C13 C14 C15 C16 C17 C18 C19}
mkdir -p logs
for p in $props; do
  s=$(date +%s)
  ./bin/vcheck -p $p -tier $tier -harness "$base/harness" -evidence "$base/evidence" -replays "$base/replays" -known "$base/known_findings.json" > logs/${tier}_$p.log 2>&1; rc=$?
  e=$(date +%s)
  echo "$p exit=$rc $((e-s))s $(grep -c '^VIOLATION' logs/${tier}_$p.log) violations, $(grep -c '^REDUCED' logs/${tier}_$p.log) reduced, $(grep -c '^KNOWN' logs/${tier}_$p.log) known"
  if [ $rc -ne 0 ] || grep -q '^REDUCED\|^SPURIOUS' logs/${tier}_$p.log; then
    grep -E '^(VIOLATION|REDUCED|SPURIOUS|REPLAY-MISMATCH|VACUOUS|harness |vcheck )|counterexample' logs/${tier}_$p.log | cut -c1-400 | head -40
    for f in $(grep -o 'replay=[^ ]*' logs/${tier}_$p.log | cut -d= -f2 | head -3); do echo "--- $f"; head -c 2500 "$f"; echo; done
  fi
done
