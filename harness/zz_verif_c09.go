//go:build verif

package dicescript

func init() {
	vHarnesses["VH_C09_roundtrip"] = VH_C09_roundtrip
	vHarnesses["VH_C09_cycle"] = VH_C09_cycle
	vHarnesses["VH_C09_behave"] = VH_C09_behave
}

var vC09Strs = []string{"", "a", "汉\"q\\", "line\nbreak\t\x01", "{\"t\":0}"}
var vC09Keys = []string{"a", "k\vv", "\x01\x7f", "汉 \\", "\U000e0001x", "<>&\u2028"}
var vC09Floats = []float64{0, 1.5, -2.25, 1e300, 5e-324, 3}

// vC09Value builds script values with symbolic integer payloads, strings
// with JSON-hostile characters, finite floats, and all container shapes.
func vC09Value(label string, depth int) *VMValue {
	n := 9
	if depth <= 0 {
		n = 4
	}
	switch vChoice(label+"_kind", n) {
	case 0:
		return NewIntVal(IntType(vInt64(label + "_int")))
	case 1:
		return NewFloatVal(vC09Floats[vChoice(label+"_flt", len(vC09Floats))])
	case 2:
		return NewStrVal(vC09Strs[vChoice(label+"_str", len(vC09Strs))])
	case 3:
		return NewNullVal()
	case 4:
		k := vChoice(label+"_len", 3)
		items := make([]*VMValue, k)
		for i := range items {
			items[i] = vC09Value(label+"_e", depth-1)
		}
		return NewArrayValRaw(items)
	case 5:
		k := vChoice(label+"_len", 3)
		m := &ValueMap{}
		keys := []string{"a", "b\"c"}
		if label == "v" && k > 0 {
			// keys a script can write: control characters, DEL, non-printable runes
			keys[0] = vC09Keys[vChoice(label+"_key", len(vC09Keys))]
		}
		for i := 0; i < k; i++ {
			m.Store(keys[i], vC09Value(label+"_v", depth-1))
		}
		return NewDictVal(m).V()
	case 6:
		cd := &ComputedData{Expr: "this.a + 1"}
		if vChoice(label+"_attrs", 2) == 1 {
			cd.Attrs = &ValueMap{}
			cd.Attrs.Store("a", vC09Value(label+"_ca", depth-1))
		}
		return NewComputedValRaw(cd)
	case 7:
		return NewFunctionValRaw(&FunctionData{Expr: "return a + 1", Name: "fn1", Params: []string{"a"}})
	default:
		return builtinValues["abs"]
	}
}

// vStructEq is structural equality of script values (ValueEqual compares
// functions by pointer, which a restored copy can never satisfy).
func vStructEq(a, b *VMValue, depth int) bool {
	if a == nil || b == nil || depth > 6 {
		return a == b
	}
	if a.TypeId != b.TypeId {
		return false
	}
	switch a.TypeId {
	case VMTypeFunction:
		f1, _ := a.ReadFunctionData()
		f2, _ := b.ReadFunctionData()
		if f1.Expr != f2.Expr || f1.Name != f2.Name || len(f1.Params) != len(f2.Params) {
			return false
		}
		for i := range f1.Params {
			if f1.Params[i] != f2.Params[i] {
				return false
			}
		}
		return true
	case VMTypeComputedValue:
		c1, _ := a.ReadComputed()
		c2, _ := b.ReadComputed()
		if c1.Expr != c2.Expr {
			return false
		}
		n1, n2 := 0, 0
		if c1.Attrs != nil {
			n1 = c1.Attrs.Length()
		}
		if c2.Attrs != nil {
			n2 = c2.Attrs.Length()
		}
		if n1 != n2 {
			return false
		}
		ok := true
		if c1.Attrs != nil {
			c1.Attrs.Range(func(k string, v *VMValue) bool {
				w, found := c2.Attrs.Load(k)
				if !found || !vStructEq(v, w, depth+1) {
					ok = false
				}
				return ok
			})
		}
		return ok
	case VMTypeArray:
		l1, _ := a.ReadArray()
		l2, _ := b.ReadArray()
		if len(l1.List) != len(l2.List) {
			return false
		}
		for i := range l1.List {
			if !vStructEq(l1.List[i], l2.List[i], depth+1) {
				return false
			}
		}
		return true
	case VMTypeDict:
		d1, d2 := a.MustReadDictData(), b.MustReadDictData()
		if d1.Dict.Length() != d2.Dict.Length() {
			return false
		}
		ok := true
		d1.Dict.Range(func(k string, v *VMValue) bool {
			w, found := d2.Dict.Load(k)
			if !found || !vStructEq(v, w, depth+1) {
				ok = false
			}
			return ok
		})
		return ok
	}
	return ValueEqual(a, b, false)
}

// vHasMultiDict: does the tree contain a dict with two or more keys?
func vHasMultiDict(v *VMValue) bool {
	switch v.TypeId {
	case VMTypeArray:
		l, _ := v.ReadArray()
		for _, e := range l.List {
			if vHasMultiDict(e) {
				return true
			}
		}
	case VMTypeDict:
		d := v.MustReadDictData()
		if d.Dict.Length() >= 2 {
			return true
		}
		found := false
		d.Dict.Range(func(k string, e *VMValue) bool {
			found = found || vHasMultiDict(e)
			return true
		})
		return found
	case VMTypeComputedValue:
		cd, _ := v.ReadComputed()
		if cd.Attrs != nil {
			if cd.Attrs.Length() >= 2 {
				return true
			}
			found := false
			cd.Attrs.Range(func(k string, e *VMValue) bool {
				found = found || vHasMultiDict(e)
				return true
			})
			return found
		}
	}
	return false
}

//vh:prop=C09 tiers=quick,thorough sigkeys=v_kind unwind=8 unwind_ok=1 budget_s=2400 quick:P.depth=1 thorough:P.depth=2 bounds="every value tree of depth <= 1 (quick) / 2 (thorough), containers of 0..2 elements, built from integers (64-bit symbols), finite floats (6 representatives incl. the smallest subnormal and 1e300), strings with quotes, backslashes, control characters, multi-byte runes and JSON-looking text, null, arrays, dicts (the outermost one with a key from 6 hostile spellings: vertical tab, 0x01 / DEL, backslash, a non-printable rune above U+FFFF, HTML / U+2028 characters), computed values with and without attributes, functions and native functions: ToJSON then VMValueFromJSON gives no error and a structurally equal value with equal repr; variable maps likewise (Attrs.ToJSON / UnmarshalJSON)"
func VH_C09_roundtrip() {
	v := vC09Value("v", vParam("depth", 1))
	shared := vChoice("shared", 2) == 1
	if shared {
		// the same container referenced twice (no cycle) is representable
		inner := NewArrayVal(v)
		v = NewArrayVal(inner, inner)
	}
	data, err := v.ToJSON()
	vReach("serialised")
	vAssert(err == nil, "representable-value-serialises")
	if err != nil {
		return
	}
	w, err := VMValueFromJSON(data)
	vAssert(err == nil, "snapshot-decodes")
	if err != nil {
		return
	}
	vAssert(vStructEq(v, w, 0), "restored-value-is-structurally-equal")
	// printing abbreviates a repeated container as [...], which the restored
	// copies are not; and a dict prints in Go map order (known finding under
	// C06), so texts are compared only where they are a function of the value
	if !shared && !vHasMultiDict(v) {
		vAssert(w.ToRepr() == v.ToRepr(), "restored-value-prints-the-same")
	}
	// through a variable map
	m := &ValueMap{}
	m.Store("x", v)
	md, err := m.ToJSON()
	vAssert(err == nil, "variable-map-serialises")
	if err != nil {
		return
	}
	m2 := &ValueMap{}
	vAssert(m2.UnmarshalJSON(md) == nil, "variable-map-decodes")
	x2, ok := m2.Load("x")
	vAssert(ok && vStructEq(v, x2, 0), "restored-variable-is-structurally-equal")
	vAssert(m2.Length() == 1, "restored-map-has-the-same-keys")
}

//vh:prop=C09 tiers=quick,thorough sigkeys=shape,wrap depth_is_violation=1 maxdepth=3000 budget_s=600 bounds="all reference-cycle shapes over <= 2 container nodes (array in itself, dict in itself, array<->dict, computed attribute holding its owner's container) and non-finite floats (+Inf, -Inf, NaN; alone, in arrays, nested arrays, dicts, arrays in dicts, computed attributes, mixed arrays and as a VM variable): ToJSON returns an error; it never crashes (stack exhaustion counts) and never returns a document"
func VH_C09_cycle() {
	var v *VMValue
	shape := vChoice("shape", 7)
	switch shape {
	case 0:
		v = NewArrayVal()
		ad, _ := v.ReadArray()
		ad.List = append(ad.List, v)
	case 1:
		v = NewDictVal(nil).V()
		v.MustReadDictData().Dict.Store("self", v)
	case 2:
		v = NewArrayVal()
		d := NewDictVal(nil).V()
		d.MustReadDictData().Dict.Store("up", v)
		ad, _ := v.ReadArray()
		ad.List = append(ad.List, d)
	case 3:
		v = NewDictVal(nil).V()
		a := NewArrayVal(v)
		v.MustReadDictData().Dict.Store("down", a)
	case 4:
		v = NewDictVal(nil).V()
		inner := NewDictVal(nil).V()
		inner.MustReadDictData().Dict.Store("up", v)
		v.MustReadDictData().Dict.Store("down", inner)
	case 5, 6:
		// a non-finite float (scripts build them with 10.0 ** 400), alone or
		// somewhere inside a container
		x := NewFloatVal(vInf())
		if shape == 6 {
			x = NewFloatVal(vNaN())
		}
		if vChoice("neg", 2) == 1 && shape == 5 {
			x = NewFloatVal(-vInf())
		}
		switch vChoice("wrap", 8) {
		case 0:
			v = x
		case 1:
			v = NewArrayVal(NewIntVal(1), x)
		case 2:
			v = NewArrayVal(NewArrayVal(x))
		case 3:
			d := NewDictVal(nil).V()
			d.MustReadDictData().Dict.Store("k", x)
			v = d
		case 4:
			d := NewDictVal(nil).V()
			d.MustReadDictData().Dict.Store("k", NewArrayVal(x, NewFloatVal(1.5)))
			v = d
		case 5:
			cd := &ComputedData{Expr: "this.a", Attrs: &ValueMap{}}
			cd.Attrs.Store("a", NewArrayVal(x))
			v = NewComputedValRaw(cd)
		case 6:
			v = NewArrayVal(NewFloatVal(2.5), NewStrVal("s"), NewArrayVal(NewIntVal(3), x))
		case 7:
			// as a variable of a VM
			m := &ValueMap{}
			m.Store("ok", NewIntVal(1))
			m.Store("bad", NewArrayVal(x))
			data, err := m.ToJSON()
			vReach("returned")
			vAssert(err != nil, "unrepresentable-value-is-an-error")
			vAssert(err == nil || data == nil, "no-document-on-error")
			return
		}
	}
	data, err := v.ToJSON()
	vReach("returned")
	vAssert(err != nil, "unrepresentable-value-is-an-error")
	vAssert(err == nil || data == nil, "no-document-on-error")
}

var vC09Prefix = []string{
	"func fn1(n) { return n * 2 }",
	"&v1 = base + 1",
	"&v2 = this.k + base; &v2.k = 5",
	"arr = [1, base, [2, 3]]",
	"dd = {'k': base, 'j': [1]}",
	"s1 = 'q\"' + 'x'",
	"fl = 1.5 * 3",
	"func fib(n) { n < 2 ? n : fib(n-1) + fib(n-2) }",
	"func ev(n) { if n == 0 { return 1 }; return od(n - 1) }; func od(n) { if n == 0 { return 0 }; return ev(n - 1) }",
	"&v3 = fib(4) + fn1(base)",
	"func pool(n) { return n + 2a10 + 2c8 }",
	"&luck = b2 + f + 1000",
}
var vC09Follow = []string{"fn1(base)", "v1", "v2", "arr[1] + arr[2][0]", "dd.k + dd.j[0]", "s1", "fl", "fn1(v1) + v2", "base = 10; v1", "arr.push(4); arr.len()",
	"fib(6)", "ev(5) * 10 + ev(4)", "v3", "fib(1) + fib(5)", "[fib(3), fib(3)]",
	"pool(1)", "luck", "luck + pool(2)"}

//vh:prop=C09 tiers=quick,thorough sigkeys=cut,follow summaries=Roll:roll-contract budget_s=900 bounds="a 12-statement program defining a function, a self-recursive and two mutually recursive functions, a computed value that calls them, a function and a computed value using the optional dice families (enabled in the VM configuration), computed values with and without attributes, nested containers, strings and floats over a symbolic integer variable, snapshotted (Attrs.ToJSON) after every statement prefix and restored into a fresh VM; each of 18 follow-up programs (the recursive functions are first called after the restore) gives the same value text, error status and process text on the original and the restored VM"
func VH_C09_behave() {
	cut := 1 + vChoice("cut", len(vC09Prefix))
	fi := vChoice("follow", len(vC09Follow))
	vm := vNewVM()
	vm.Config.DiceMinMode = true
	vm.Attrs.Store("base", NewIntVal(IntType(vInt64("base"))))
	for i := 0; i < cut; i++ {
		if err := vm.Run(vC09Prefix[i]); err != nil {
			vFail("prefix statement failed: " + err.Error())
		}
	}
	snap, err := vm.Attrs.ToJSON()
	vAssert(err == nil, "snapshot-serialises")
	if err != nil {
		return
	}
	vm2 := vNewVM()
	vm2.Config.DiceMinMode = true
	vAssert(vm2.Attrs.UnmarshalJSON(snap) == nil, "snapshot-decodes")
	e1 := vm.Run(vC09Follow[fi])
	e2 := vm2.Run(vC09Follow[fi])
	vReach("ran")
	vAssert((e1 == nil) == (e2 == nil), "same-error-status-after-restore")
	if e1 != nil || e2 != nil {
		return
	}
	vAssert(vm.Ret.ToRepr() == vm2.Ret.ToRepr(), "same-value-after-restore")
	vAssert(vm.GetDetailText() == vm2.GetDetailText(), "same-process-text-after-restore")
}
