//go:build verif

package dicescript

import "strings"


func init() {
	vHarnesses["VH_C02_binop"] = VH_C02_binop
	vHarnesses["VH_C02_prog"] = VH_C02_prog
}

var vC02Ops = []string{"+", "-", "*", "/", "%", "==", "!=", "<", "<=", ">", ">=", "&", "|", "&&", "||", "??"}

// reference value: kind 0 int, 1 float, 2 error, 3 "left operand", 4 "right operand"
type vRef struct {
	kind int
	i    int64
	f    float64
}

func vb(b bool) vRef {
	if b {
		return vRef{kind: 0, i: 1}
	}
	return vRef{kind: 0, i: 0}
}

// vC02RefNum is the definitional semantics of a binary operator on two
// numbers (GUIDE.md: int op int is integer arithmetic, anything with a float
// is float arithmetic; comparisons give 1/0; division by zero is an error
// unless IgnoreDiv0, which yields the left operand; % and & | are integer
// only; && || ?? return an operand).
func vC02RefNum(op string, lf, rf bool, li, ri int64, lx, rx float64, ignoreDiv0 bool) vRef {
	bothInt := !lf && !rf
	a, b := lx, rx
	if !lf {
		a = float64(li)
	}
	if !rf {
		b = float64(ri)
	}
	lTrue, lNull := (lf && lx != 0) || (!lf && li != 0), false
	_ = lNull
	switch op {
	case "+":
		if bothInt {
			return vRef{kind: 0, i: li + ri}
		}
		return vRef{kind: 1, f: a + b}
	case "-":
		if bothInt {
			return vRef{kind: 0, i: li - ri}
		}
		return vRef{kind: 1, f: a - b}
	case "*":
		if bothInt {
			return vRef{kind: 0, i: li * ri}
		}
		return vRef{kind: 1, f: a * b}
	case "/":
		if (rf && rx == 0) || (!rf && ri == 0) {
			if ignoreDiv0 {
				return vRef{kind: 3}
			}
			return vRef{kind: 2}
		}
		if bothInt {
			return vRef{kind: 0, i: vQuoInt(li, ri)}
		}
		return vRef{kind: 1, f: a / b}
	case "%":
		if !bothInt {
			return vRef{kind: 2}
		}
		if ri == 0 {
			return vRef{kind: 2}
		}
		return vRef{kind: 0, i: vRemInt(li, ri)}
	case "==":
		if bothInt {
			return vb(li == ri)
		}
		return vb(a == b)
	case "!=":
		if bothInt {
			return vb(li != ri)
		}
		return vb(a != b)
	case "<":
		if bothInt {
			return vb(li < ri)
		}
		return vb(a < b)
	case "<=":
		if bothInt {
			return vb(li <= ri)
		}
		return vb(a <= b)
	case ">":
		if bothInt {
			return vb(li > ri)
		}
		return vb(a > b)
	case ">=":
		if bothInt {
			return vb(li >= ri)
		}
		return vb(a >= b)
	case "&":
		if !bothInt {
			return vRef{kind: 2}
		}
		return vRef{kind: 0, i: li & ri}
	case "|":
		if !bothInt {
			return vRef{kind: 2}
		}
		return vRef{kind: 0, i: li | ri}
	case "&&":
		if !lTrue {
			return vRef{kind: 3}
		}
		return vRef{kind: 4}
	case "||":
		if lTrue {
			return vRef{kind: 3}
		}
		return vRef{kind: 4}
	case "??":
		return vRef{kind: 3}
	}
	return vRef{kind: 2}
}

// truncated division without the MinInt64 / -1 trap (wraps like the hardware)
func vQuoInt(a, b int64) int64 {
	if b == -1 {
		return -a
	}
	return a / b
}

func vRemInt(a, b int64) int64 {
	if b == -1 {
		return 0
	}
	return a % b
}

func vSameFloat(a, b float64) bool {
	return vOr(a == b, vAnd(a != a, b != b))
}

//vh:prop=C02 tiers=quick,thorough sigkeys=op,lkind,rkind budget_s=1200 bounds="sixteen binary operators x operand kinds {int, float} on both sides with 64-bit / Float64 payloads as solver symbols, IgnoreDiv0 both ways, evaluated through the real parser and VM (program 'x <op> y') and compared with a definitional reference; power (**) is excluded (math.Pow is uninterpreted)"
func VH_C02_binop() {
	op := vC02Ops[vChoice("op", len(vC02Ops))]
	lf := vChoice("lkind", 2) == 1
	rf := vChoice("rkind", 2) == 1
	var li, ri int64
	var lx, rx float64
	vm := vNewVM()
	if lf {
		lx = vFloat64("lf")
		vm.Attrs.Store("x", NewFloatVal(lx))
	} else {
		li = vInt64("li")
		vm.Attrs.Store("x", NewIntVal(IntType(li)))
	}
	if rf {
		rx = vFloat64("rf")
		vm.Attrs.Store("y", NewFloatVal(rx))
	} else {
		ri = vInt64("ri")
		vm.Attrs.Store("y", NewIntVal(IntType(ri)))
	}
	ign := vChoice("IgnoreDiv0", 2) == 1
	vm.Config.IgnoreDiv0 = ign
	err := vm.Run("x " + op + " y")
	vReach("ran")
	ref := vC02RefNum(op, lf, rf, li, ri, lx, rx, ign)
	if ref.kind == 3 || ref.kind == 4 {
		// an operand is returned
		isF, i, f := lf, li, lx
		if ref.kind == 4 {
			isF, i, f = rf, ri, rx
		}
		if isF {
			ref = vRef{kind: 1, f: f}
		} else {
			ref = vRef{kind: 0, i: i}
		}
	}
	switch ref.kind {
	case 2:
		vAssert(err != nil, "error-prescribed")
	case 0:
		vAssert(err == nil, "no-error-prescribed")
		if err == nil {
			got, ok := vm.Ret.ReadInt()
			vAssert(ok, "integer-result-prescribed")
			vAssert(int64(got) == ref.i, "integer-value")
		}
	case 1:
		vAssert(err == nil, "no-error-prescribed")
		if err == nil {
			got, ok := vm.Ret.ReadFloat()
			vAssert(ok, "float-result-prescribed")
			vAssert(vSameFloat(got, ref.f), "float-value")
		}
	}
}

// programs over integer variables p, q, r (symbolic) with a reference closure
var vC02Progs = []struct {
	src string
	ref func(p, q, r int64) (int64, bool) // value, ok (false: error prescribed)
}{
	{"&cc = xx + 1; func fs(xx) { return cc }; fs(yy)", func(p, q, r int64) (int64, bool) { return p + 1, true }},
	{"&cc = xx + 1; func fs(n) { xx = zz; return cc }; fs(1) - cc", func(p, q, r int64) (int64, bool) { return 0, true }},
	{"&cc = xx * 2; func g2(xx) { return cc + xx }; func g1(xx) { return g2(xx + 1) }; g1(yy)", func(p, q, r int64) (int64, bool) { return p*2 + q + 1, true }},
	{"xx + yy * zz", func(p, q, r int64) (int64, bool) { return p + q*r, true }},
	{"(xx + yy) * zz", func(p, q, r int64) (int64, bool) { return (p + q) * r, true }},
	{"xx - yy - zz", func(p, q, r int64) (int64, bool) { return p - q - r, true }},
	{"xx - (yy - zz)", func(p, q, r int64) (int64, bool) { return p - (q - r), true }},
	{"-xx + yy", func(p, q, r int64) (int64, bool) { return -p + q, true }},
	{"xx < yy && yy < zz", func(p, q, r int64) (int64, bool) {
		if !(p < q) {
			return 0, true
		}
		return b2i(q < r), true
	}},
	{"xx < yy || yy < zz", func(p, q, r int64) (int64, bool) {
		if p < q {
			return 1, true
		}
		return b2i(q < r), true
	}},
	{"xx == yy ? zz : 7", func(p, q, r int64) (int64, bool) {
		if p == q {
			return r, true
		}
		return 7, true
	}},
	{"xx > yy ? 1, xx > zz ? 2, 1 ? 3", func(p, q, r int64) (int64, bool) {
		if p > q {
			return 1, true
		}
		if p > r {
			return 2, true
		}
		return 3, true
	}},
	{"if xx > yy { v1 = xx } else { v1 = yy }; v1", func(p, q, r int64) (int64, bool) {
		if p > q {
			return p, true
		}
		return q, true
	}},
	{"if xx > yy { v1 = 1 } else if xx > zz { v1 = 2 } else { v1 = 3 }; v1", func(p, q, r int64) (int64, bool) {
		if p > q {
			return 1, true
		}
		if p > r {
			return 2, true
		}
		return 3, true
	}},
	{"v1 = 0; i = 0; while i < 3 { i = i + 1; if i == 2 { continue }; v1 = v1 + xx }; v1", func(p, q, r int64) (int64, bool) { return p + p, true }},
	{"v1 = 0; i = 0; while i < 5 { i = i + 1; if i == 3 { break }; v1 = v1 + yy }; v1", func(p, q, r int64) (int64, bool) { return q + q, true }},
	// nested loops whose outer body has break / continue before the inner loop
	{"v1 = 0; i = 0; while i < 3 { i = i + 1; if i == 2 { break }; j = 0; while j < 3 { j = j + 1; v1 = v1 + xx }; v1 = v1 + 10 }; v1", func(p, q, r int64) (int64, bool) { return p + p + p + 10, true }},
	{"v1 = 0; i = 0; while i < 3 { i = i + 1; if i == 1 { continue }; j = 0; while 1 { j = j + 1; if j > 2 { break }; v1 = v1 + yy }; v1 = v1 + 10 }; v1", func(p, q, r int64) (int64, bool) { return q + q + q + q + 20, true }},
	{"v1 = 0; i = 0; while i < 3 { i = i + 1; if i == 1 { continue }; j = 0; while j < 2 { j = j + 1; v1 = v1 + zz }; v1 = v1 + 1 }; v1", func(p, q, r int64) (int64, bool) { return r + r + r + r + 2, true }},
	{"v1 = 0; i = 0; while i < 9 { i = i + 1; if i == 1 { continue }; if i == 3 { break }; j = 0; while j < 2 { j = j + 1; if j == 2 { break }; v1 = v1 + xx }; v1 = v1 + 5 }; v1", func(p, q, r int64) (int64, bool) { return p + 5, true }},
	// built-in functions and methods
	{"abs(xx)", func(p, q, r int64) (int64, bool) {
		if p < 0 {
			return -p, true
		}
		return p, true
	}},
	{"ceil(xx) + 0", func(p, q, r int64) (int64, bool) { return p, true }},
	{"floor(xx) - round(yy) + toInt(zz)", func(p, q, r int64) (int64, bool) { return p - q + r, true }},
	{"toBool(xx) * 10 + toBool(0) + toBool('') + toBool('s') * 100", func(p, q, r int64) (int64, bool) {
		if p != 0 {
			return 110, true
		}
		return 100, true
	}},
	{"typeId(xx) + typeId(1.5) * 10 + typeId('s') * 100", func(p, q, r int64) (int64, bool) { return 210, true }},
	{"[xx, yy, zz].sum()", func(p, q, r int64) (int64, bool) { return p + q + r, true }},
	{"[xx, 'w', yy, null].sum()", func(p, q, r int64) (int64, bool) { return p + q, true }},
	{"[xx, yy, zz].kh()", func(p, q, r int64) (int64, bool) { return vMax3(p, q, r), true }},
	{"[xx, yy, zz].kl()", func(p, q, r int64) (int64, bool) { return vMin3(p, q, r), true }},
	{"[xx, yy, zz].kh(2)", func(p, q, r int64) (int64, bool) { return p + q + r - vMin3(p, q, r), true }},
	{"[xx, yy, zz].kl(2)", func(p, q, r int64) (int64, bool) { return p + q + r - vMax3(p, q, r), true }},
	{"[xx, yy, zz]kh + [xx, yy, zz]kl2", func(p, q, r int64) (int64, bool) { return vMax3(p, q, r) + p + q + r - vMax3(p, q, r), true }},
	{"[xx, yy, zz].kh(5)", func(p, q, r int64) (int64, bool) { return p + q + r, true }},
	{"[xx, yy].len() + [].len() * 10", func(p, q, r int64) (int64, bool) { return 2, true }},
	{"v1 = [xx, yy]; v1.push(zz); v1.len() * 10 + (v1.pop() == zz)", func(p, q, r int64) (int64, bool) { return 31, true }},
	{"v1 = [xx, yy, zz]; v2 = v1.shift(); (v2 == xx) * 10 + v1.len()", func(p, q, r int64) (int64, bool) { return 12, true }},
	{"toInt('0' + '7') + xx + toInt(toStr(42))", func(p, q, r int64) (int64, bool) { return 49 + p, true }},
	{"toInt('12') + xx", func(p, q, r int64) (int64, bool) { return 12 + p, true }},
	{"toInt('x')", func(p, q, r int64) (int64, bool) { return 0, false }},
	{"toInt('')", func(p, q, r int64) (int64, bool) { return 0, false }},
	{"toFloat('zz')", func(p, q, r int64) (int64, bool) { return 0, false }},
	{"(toFloat('1.5') * 2 == 3.0) + (toFloat(2) == 2.0) * 10", func(p, q, r int64) (int64, bool) { return 11, true }},
	{"ceil(2.5) + floor(0-2.5) * 10 + round(2.5) * 100 + round(0-2.5) * 1000 + toInt(2.9) * 10000 + toInt(0-2.9) * 100000", func(p, q, r int64) (int64, bool) {
		return 3 - 30 + 300 - 3000 + 20000 - 200000, true
	}},
	{"(abs(0-2.5) == 2.5) + (abs(2.5) == 2.5) * 10", func(p, q, r int64) (int64, bool) { return 11, true }},
	{"ceil('s')", func(p, q, r int64) (int64, bool) { return 0, false }},
	{"abs(null)", func(p, q, r int64) (int64, bool) { return 0, false }},
	{"store('v9', xx); v9 + load('v9')", func(p, q, r int64) (int64, bool) { return p + p, true }},
	{"load(5)", func(p, q, r int64) (int64, bool) { return 0, false }},
	{"(repr('a') == \"'a'\") + (toStr(1.5) == '1.5') * 10 + (toStr([1, 2]) == '[1, 2]') * 100 + (toStr(null) == 'null') * 1000", func(p, q, r int64) (int64, bool) { return 1111, true }},
	{"v1 = {'k': xx, 'j': yy}; v1.len() * 100 + (v1.k == xx) * 10 + (v1['j'] == yy)", func(p, q, r int64) (int64, bool) { return 211, true }},
	{"v1 = {'k': xx, 'j': yy}; v1.keys().len() + v1.values().sum()", func(p, q, r int64) (int64, bool) { return 2 + p + q, true }},
	{"v1 = {'k': xx}; v2 = v1.items(); (v2[0][0] == 'k') * 10 + (v2[0][1] == xx)", func(p, q, r int64) (int64, bool) { return 11, true }},
	{"(null ?? xx) + (yy ?? zz)", func(p, q, r int64) (int64, bool) { return p + q, true }},
	{"[1..4].sum() + [4..1].len() * 100 + [3..3][0] * 1000", func(p, q, r int64) (int64, bool) { return 10 + 400 + 3000, true }},
	{"s1 = 'ab' + 'cd'; (s1[1] == 'b') + (s1[-1] == 'd') * 100", func(p, q, r int64) (int64, bool) { return 101, true }},
	{"v1 = [xx, yy]; (v1[0] == xx) + (v1[1] == yy) * 10 + (v1[-1] == yy) * 100", func(p, q, r int64) (int64, bool) { return 111, true }},
	{"v1 = [[xx], [yy]]; v2 = 0; if v1[1][0] == yy { v2 = 7 }; v2", func(p, q, r int64) (int64, bool) { return 7, true }},
	// power on concrete operands (on symbolic ones it is uninterpreted)
	{"2 ** 10 + (0-2) ** 3 * 10000 + 3 ** 0 * 100000000", func(p, q, r int64) (int64, bool) { return 1024 - 80000 + 100000000, true }},
	{"1 ** -1 + (-1) ** -3 * 10 + 2 ** -1 * 100 + (-1) ** -2 * 1000 + 5 ** -2 * 10000", func(p, q, r int64) (int64, bool) { return 1 - 10 + 0 + 1000 + 0, true }},
	{"v1 = 0 - 1; v2 = 1; v2 ** v1 + v1 ** v1 * 10 + 2 ^ 3 * 100", func(p, q, r int64) (int64, bool) { return 1 - 10 + 800, true }},
	{"(2 ** 0.5 > 1.41) + (2 ** 0.5 < 1.42) * 10 + (4 ** 0.5 == 2.0) * 100 + (2.0 ** 3 == 8.0) * 1000", func(p, q, r int64) (int64, bool) { return 1111, true }},
	{"func fn1(n) { return n * 2 }; fn1(xx) + fn1(yy)", func(p, q, r int64) (int64, bool) { return p*2 + q*2, true }},
	{"func fn1(n) { if n > 0 { return 1 }; return 2 }; fn1(xx)", func(p, q, r int64) (int64, bool) {
		if p > 0 {
			return 1, true
		}
		return 2, true
	}},
	{"func fn1(n) { xx = n }; fn1(5); xx", func(p, q, r int64) (int64, bool) { return p, true }},
	{"&v1 = xx + yy; xx = zz; v1", func(p, q, r int64) (int64, bool) { return r + q, true }},
	{"[xx, yy, zz][1]", func(p, q, r int64) (int64, bool) { return q, true }},
	{"[xx, yy, zz][-1]", func(p, q, r int64) (int64, bool) { return r, true }},
	{"v1 = [xx, yy]; v2 = v1; v2[0] = zz; v1[0]", func(p, q, r int64) (int64, bool) { return r, true }},
	{"v1 = {'k': xx}; v1.k = yy; v1['k'] + v1.k", func(p, q, r int64) (int64, bool) { return q + q, true }},
	{"v1 = [xx, yy, zz]; v1[0:2] = [7]; v1[1]", func(p, q, r int64) (int64, bool) { return r, true }},
	{"v1 = [xx, yy, zz][1:]; v1[0]", func(p, q, r int64) (int64, bool) { return q, true }},
	{"xx / yy", func(p, q, r int64) (int64, bool) {
		if q == 0 {
			return 0, false
		}
		return vQuoInt(p, q), true
	}},
	{"xx % yy + zz", func(p, q, r int64) (int64, bool) {
		if q == 0 {
			return 0, false
		}
		return vRemInt(p, q) + r, true
	}},
	{"xx ?? yy", func(p, q, r int64) (int64, bool) { return p, true }},
	{"null ?? yy", func(p, q, r int64) (int64, bool) { return q, true }},
	{"xx & yy | zz", func(p, q, r int64) (int64, bool) { return p&q | r, true }},
	{"xx\n+ yy", func(p, q, r int64) (int64, bool) { return p + q, true }},
	{" ( xx )+( yy ) ", func(p, q, r int64) (int64, bool) { return p + q, true }},
	{"this.v9 = xx; yy", func(p, q, r int64) (int64, bool) { return q, true }},
	{"{'a': xx, 'b': yy}.b", func(p, q, r int64) (int64, bool) { return q, true }},
	{"{'a': xx} == {'a': xx}", func(p, q, r int64) (int64, bool) { return 1, true }},
	{"v1 = {'a': xx}; v1.keys(); v1 == {'a': xx}", func(p, q, r int64) (int64, bool) { return 1, true }},
	{"[xx, yy] == [xx, yy]", func(p, q, r int64) (int64, bool) { return 1, true }},
	{"[xx, yy] + [zz] == [xx, yy, zz]", func(p, q, r int64) (int64, bool) { return 1, true }},
	{"abs(xx - yy) >= 0 || xx - yy == xx - yy", func(p, q, r int64) (int64, bool) { return 1, true }},
	{"1 / 0; xx", func(p, q, r int64) (int64, bool) { return 0, false }},
	{"v1 = [xx, yy, zz]; v1.pop(); v2 = v1 + [7]; v3 = v1 + [8]; v2[2]", func(p, q, r int64) (int64, bool) { return 7, true }},
	{"v1 = [xx, yy]; v2 = v1 + []; v2[0] = zz; v1[0]", func(p, q, r int64) (int64, bool) { return p, true }},
	{"v1 = [xx, yy, zz, 1, 2]; v2 = v1 + [6]; v3 = v1 + [60]; v2[5]", func(p, q, r int64) (int64, bool) { return 6, true }},
	{"v1 = [xx]; v1.push(yy); v2 = v1 + [zz]; v1.push(5); v2[2]", func(p, q, r int64) (int64, bool) { return r, true }},
	{"v1 = [xx, yy] * 2; v1[0] = zz; v1[2]", func(p, q, r int64) (int64, bool) { return p, true }},
	{"v1 = [xx, yy, zz]; v2 = v1[0:2]; v2[0] = 9; v1[0]", func(p, q, r int64) (int64, bool) { return p, true }},
	{"`{xx}+{yy}` == toStr(xx) + '+' + toStr(yy)", func(p, q, r int64) (int64, bool) { return 1, true }},
}

func b2i(b bool) int64 {
	if b {
		return 1
	}
	return 0
}

func vMax3(p, q, r int64) int64 {
	m := p
	if q > m {
		m = q
	}
	if r > m {
		m = r
	}
	return m
}

func vMin3(p, q, r int64) int64 {
	m := p
	if q < m {
		m = q
	}
	if r < m {
		m = r
	}
	return m
}

//vh:prop=C02 tiers=quick,thorough sigkeys=prog unwind=12 budget_s=1200 bounds="90 programs covering precedence and grouping, short-circuit operators returning operands, ternary and multi-arm conditions, if / else-if / else, while with break and continue (also nested, with break / continue before the inner loop), functions with early return and local scope, computed values reading later assignments, array and dict aliasing (results of + * and slicing are fresh arrays, also after pop/push), negative indices, slices and slice assignment, container equality, every built-in function and array / dict method (incl. sum / kh / kl over the full 64-bit range, conversions, error cases), ranges, string indexing, whitespace/newline/parenthesis variants, and an erroring statement; integer variables xx, yy, zz are 64-bit symbols; second evaluation on the same VM (after the first, including failed ones; through Parse + RunAfterParsed instead of Run) must agree again"
func VH_C02_prog() {
	k := vParam("prog", -1)
	if k < 0 {
		k = vChoice("prog", len(vC02Progs))
	}
	pr := vC02Progs[k]
	p, q, r := vInt64("p"), vInt64("q"), vInt64("r")
	vm := vNewVM()
	for round := 0; round < 2; round++ {
		vm.Attrs.Store("xx", NewIntVal(IntType(p)))
		vm.Attrs.Store("yy", NewIntVal(IntType(q)))
		vm.Attrs.Store("zz", NewIntVal(IntType(r)))
		// first through Run, then through the two-step API
		var err error
		if round == 0 {
			err = vm.Run(pr.src)
		} else if err = vm.Parse(pr.src); err == nil {
			err = vm.RunAfterParsed()
		}
		want, ok := pr.ref(p, q, r)
		if !ok {
			vAssert(err != nil, "error-prescribed")
			continue
		}
		vAssert(err == nil, "no-error-prescribed")
		if err != nil {
			return
		}
		vAssert(strings.TrimSpace(vm.RestInput) == "", "program-consumed-entirely")
		got, isInt := vm.Ret.ReadInt()
		vAssert(isInt, "integer-result-prescribed")
		vAssert(int64(got) == want, "value-as-prescribed")
	}
	// an expression evaluated on demand afterwards (also after a failed run)
	vm.Attrs.Store("qq9", NewIntVal(IntType(p)))
	v, err := vm.RunExpr("qq9 - 1", false)
	vAssert(err == nil, "on-demand-expression-after-the-program:no-error-prescribed")
	if err == nil && v != nil {
		got, isInt := v.ReadInt()
		vAssert(isInt && int64(got) == p-1, "on-demand-expression-after-the-program:value-as-prescribed")
	}
	vReach("ran")
}

