//go:build verif

package dicescript

import (
	"bytes"
	"math"

	"golang.org/x/exp/rand"
)

func init() {
	vHarnesses["VH_C06_prov"] = VH_C06_prov
	vHarnesses["VH_C06_seed"] = VH_C06_seed
	vHarnesses["VH_C06_rollsrc"] = VH_C06_rollsrc
	vHarnesses["VH_C06_order"] = VH_C06_order
}

// every way a script can reach randomness, in every calling context
var vC06Progs = []string{
	"2d6", "d20", "3d6kh2", "3d6kl1", "3d6dh1", "3d6dl1", "2d6min3", "2d6max3", "b2", "p1", "b", "f",
	"3a8", "3a8k5", "3a8q3", "3a8m6", "2c8", "3c8m12",
	"[1,2,3].shuffle()", "[1,2,3].rand()", "[1,2,3,4].randSize(2)",
	"func fn1() { return d6 }; fn1()", "func fn1() { return 2c8 }; fn1()", "&v1 = d6; v1", "&v1 = 2a6; v1",
	"`{d6}`", "`{% 2d6 %}`", "[d6, 2]kh", "[d6,d6].kh(1)", "d", "2d", "d6 + d6 * 2d4",
	"v1 = [d6, d6]; v1[0]", "if d6 > 0 { d6 }", "i = 0; while i < 2 { i = i + 1; d6 }",
	"{'a': d6}.a", "d6 ? d6 : d6", "d(d6)", "(d4)d(d6)", "v1 = [3,1,2]; v1.shuffle(); v1.rand()",
	"func g1() { d20 }; func fn1() { g1() }; fn1()", "func g1() { d20 }; &v1 = g1(); v1", "&v1 = d6; &v2 = v1 + d6; v2",
	"func g1() { 2a6 }; func fn1() { `{g1()}` }; fn1()", "func g1() { [1,2,3].rand() }; func fn1() { g1() }; fn1()",
}

func vSeededVM() *Context {
	vm := vNewVM()
	vm.Seed = []byte{1, 2, 3, 4, 5, 6, 7, 8, 9, 10, 11, 12, 13, 14, 15, 16}
	vm.Init()
	return vm
}

//vh:prop=C06 tiers=quick,thorough sigkeys=prog summaries=Roll:roll-log unwind=8 budget_s=900 bounds="45 programs covering every dice family, the random array methods, and dice inside functions, computed values, template holes, containers, conditions, loops and default-sides expressions, on a VM seeded through Seed+Init or with a generator installed directly; dice up to three script calls deep; dice values fixed to low faces (1,2 alternating: provenance does not depend on values), the generator receiver of every draw is logged; DefaultDiceSideExpr in {unset, 'd6'}"
func VH_C06_prov() {
	k := vParam("prog", -1)
	if k < 0 {
		k = vChoice("prog", len(vC06Progs))
	}
	vm := vSeededVM()
	if vChoice("installed-generator", 2) == 1 {
		// the host installs a generator state directly (e.g. from GetCurSeed)
		vm = vNewVM()
		src := &rand.PCGSource{}
		src.Seed(7)
		vm.RandSrc = src
	}
	if vChoice("defaultSides", 2) == 1 {
		vm.Config.DefaultDiceSideExpr = "d6"
	}
	err := vm.Run(vC06Progs[k])
	vReach("ran")
	if err != nil {
		vObserve("err", err.Error())
	} else {
		vObserve("ret", vm.Ret.ToString())
	}
	vAssert(vAnd(vGlobalRandUses() == 0, vDrawsFrom(vm.RandSrc) == vDrawCount()), "all-randomness-from-the-context-generator")
}

//vh:prop=C06 tiers=quick,thorough summaries=Roll:roll-log unwind=8 budget_s=600 bounds="all 128-bit generator states (two 64-bit symbols): MarshalBinary/UnmarshalBinary of x/exp/rand (interpreted) and GetCurSeed -> Seed -> Init round-trip the state exactly"
func VH_C06_seed() {
	lo, hi := vUint64("low"), vUint64("high")
	var b [16]byte
	for i := 0; i < 8; i++ {
		b[i] = byte(hi >> (56 - 8*i))
		b[8+i] = byte(lo >> (56 - 8*i))
	}
	src := &rand.PCGSource{}
	vAssert(src.UnmarshalBinary(b[:]) == nil, "unmarshal-accepts-16-bytes")
	vm := NewVM()
	vm.RandSrc = src
	seed, err := vm.GetCurSeed()
	vAssert(err == nil, "GetCurSeed-no-error")
	vAssert(len(seed) == 16, "seed-is-16-bytes")
	vAssert(bytes.Equal(seed, b[:]), "GetCurSeed-is-the-generator-state")
	vm2 := NewVM()
	vm2.Seed = seed
	vm2.Init()
	vAssert(vm2.RandSrc != nil, "seeded-context-has-its-own-generator")
	vAssert(vm2.RandSrc != randSource, "seeded-context-has-its-own-generator")
	vAssert(vm2.RandSrc != src, "seeded-context-has-its-own-generator")
	seed2, err2 := vm2.GetCurSeed()
	vAssert(err2 == nil, "GetCurSeed-no-error")
	vAssert(bytes.Equal(seed2, seed), "fresh-context-continues-from-the-captured-state")
	// seeding a third context, and rolling on it, leaves the second one's state alone
	vm3 := NewVM()
	vm3.Seed = []byte{9, 9, 9, 9, 9, 9, 9, 9, 1, 1, 1, 1, 1, 1, 1, 1}
	vm3.Init()
	vAssert(vm3.RandSrc != vm2.RandSrc, "two-seeded-contexts-have-distinct-generators")
	_ = vm3.Run("3d6 + d20")
	seed3, _ := vm2.GetCurSeed()
	vAssert(bytes.Equal(seed3, seed), "state-unchanged-by-another-context")
	// seeding the same context again from equal bytes, after it rolled, rewinds it
	// (the generator is moved by installing another state: in this harness dice are summarised)
	vAssert(vm2.RandSrc.UnmarshalBinary([]byte{7, 7, 7, 7, 7, 7, 7, 7, 3, 3, 3, 3, 3, 3, 3, 3}) == nil, "generator-state-can-be-set")
	moved, _ := vm2.GetCurSeed()
	vAssert(!bytes.Equal(moved, seed) || (lo == 0x0303030303030303 && hi == 0x0707070707070707), "generator-moved")
	vm2.Seed = append([]byte(nil), seed...)
	vm2.Init()
	seed4, _ := vm2.GetCurSeed()
	vAssert(bytes.Equal(seed4, seed), "re-seeding-from-equal-bytes-rewinds-the-generator")
	// seeding does not touch the package-level generator either
	g0, _ := randSource.MarshalBinary()
	vm4 := NewVM()
	vm4.Seed = seed
	vm4.Init()
	g1, _ := randSource.MarshalBinary()
	vAssert(bytes.Equal(g0, g1), "seeding-leaves-the-package-generator-alone")
}

//vh:prop=C06 tiers=quick,thorough unwind=6 solver=z3-new/int portfolio=cvc5/int,z3/bv,z3-new/bv budget_s=600 bounds="one die through the real sampler (Roll, _roll64) with the side count a 64-bit symbol over [1, MaxInt64-1] and every generator output a fresh symbol, any number of rejected draws (inductive loop cut): every draw, including the re-draws after a rejection, is taken from the generator that was passed in, and the package-level generator is not used; with no generator passed the package-level one is the only one used"
func VH_C06_rollsrc() {
	n := vInt64("n")
	vAssume(n >= 1)
	vAssume(n <= math.MaxInt64-1)
	if vChoice("nil-source", 2) == 1 {
		Roll(nil, IntType(n), 0)
		vReach("rolled")
		vAssert(vDrawsFrom(randSource) == vDrawCount(), "without-a-generator-only-the-package-generator-is-used")
		return
	}
	src := &rand.PCGSource{}
	Roll(src, IntType(n), 0)
	vReach("rolled")
	vAssert(vDrawsFrom(src) == vDrawCount(), "every-draw-of-a-die-comes-from-the-given-generator")
	vAssert(vGlobalRandUses() == 0, "package-generator-unused-when-a-generator-is-given")
}

var vC06OrderProgs = []string{
	"{'a':1,'b':2,'c':3}.keys()", "{'a':1,'b':2,'c':3}.values()", "{'a':1,'b':2,'c':3}.items()",
	"dd = {'x':1,'y':2}; dd.keys()[0]", "[1,2,3].sum()", "x = 1; y = 2; x + y",
	"i = 0; while i < 3 { i = i + 1 }; i", "v1 = 5; v1 + v1", "dd = {'x':1,'y':2}; dd.x + dd.y", "{'a':1,'b':2} == {'b':2,'a':1}",
	"dd = {'x':1,'y':2,'z':3}; dd.len()",
}

// Engine: evaluates each program twice with Go-map iteration order forward
// and reversed (vSetMapOrder); native replay: 40 evaluations (Go randomises).
//
//vh:prop=C06 tiers=quick,thorough sigkeys=prog bounds="11 programs building/enumerating dicts and reading variables, evaluated under two opposite Go-map iteration orders; value and calculation-process text must agree"
func VH_C06_order() {
	k := vParam("prog", -1)
	if k < 0 {
		k = vChoice("prog", len(vC06OrderProgs))
	}
	runs := 2
	if !vSymbolic() {
		runs = 40
	}
	var first, firstDetail string
	for r := 0; r < runs; r++ {
		vSetMapOrder(r % 2)
		vm := vSeededVM()
		err := vm.Run(vC06OrderProgs[k])
		out := ""
		if err != nil {
			out = "error: " + err.Error()
		} else {
			out = vm.Ret.ToString()
		}
		detail := vm.GetDetailText()
		if r == 0 {
			first, firstDetail = out, detail
		} else {
			vAssert(out == first, "value-independent-of-map-iteration-order")
			vAssert(detail == firstDetail, "process-text-independent-of-map-iteration-order")
		}
	}
	vSetMapOrder(0)
}
