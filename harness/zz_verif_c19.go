//go:build verif

package dicescript

import (
	"strings"
	"unicode/utf8"
)

func init() {
	vHarnesses["VH_C19_pos"] = VH_C19_pos
	vHarnesses["VH_C19_fmt"] = VH_C19_fmt
	vHarnesses["VH_C19_longline"] = VH_C19_longline
	vHarnesses["VH_C19_cross"] = VH_C19_cross
	vHarnesses["VH_C19_custom"] = VH_C19_custom
}

// vLineCol is the oracle's definition of "line and column of an offset":
// line = 1 + number of '\n' before the offset; column = 1 + number of runes
// between the start of that line and the offset.  (An offset pointing at a
// '\n' byte therefore lies on the line that the '\n' terminates.)
func vLineCol(b []byte, offset int) (line, col int) {
	line, col = 1, 1
	i := 0
	for i < offset && i < len(b) {
		// runes as Go decodes them (an invalid byte is one rune)
		r, w := utf8.DecodeRune(b[i:])
		if r == '\n' {
			line++
			col = 1
		} else {
			col++
		}
		i += w
	}
	return
}

//vh:prop=C19 tiers=quick,thorough sigkeys=lang unwind=400 unwind_ok=1 budget_s=2400 quick:P.n=4 thorough:P.n=5 bounds="every input of exactly n bytes (4 quick, 5 thorough) over {a 1 ( ) + ' & . space newline} and the bytes of the two multi-byte runes e-acute and a CJK character; on every rejecting path the reported offset is within the input and (line, col) are those of that offset by the oracle's definition"
func VH_C19_pos() {
	n := vParam("n", 3)
	b := vSymSource("b", n, "a1()+'&. \n\xc3\xa9\xe6\xb1\x89")
	vm := NewVM()
	vm.Config.ParseErrorLanguage = vChoice("lang", 3)
	err := vm.Parse(string(b))
	vReach("parsed")
	if err == nil {
		return
	}
	el, ok := err.(errList)
	vAssert(ok, "syntax-error-is-an-error-list")
	for _, e := range el {
		pe, ok := e.(*parserError)
		if !ok {
			continue
		}
		off := pe.pos.offset
		vAssert(off >= 0 && off <= n, "offset-within-input")
		wl, wc := vLineCol(b, off)
		class := "/elsewhere"
		if off < n && b[off] == '\n' {
			class = "/offset-at-a-newline-byte"
		}
		vAssert(pe.pos.line == wl, "line-is-the-line-of-the-offset"+class)
		vAssert(pe.pos.col == wc, "column-is-the-column-of-the-offset"+class)
	}
}

func vC19Lines(b []byte) [][]byte {
	var out [][]byte
	start := 0
	for i := range b {
		if b[i] == '\n' {
			out = append(out, b[start:i])
			start = i + 1
		}
	}
	return append(out, b[start:])
}

//vh:prop=C19 tiers=quick,thorough sigkeys=lang unwind=400 unwind_ok=1 lencap=12 budget_s=1500 quick:P.n=3 thorough:P.n=4 bounds="fmtErr on every input of n bytes (3 quick, 4 thorough) over {a ( newline space} plus a 2-byte rune, with pos.line in 1..n+1 and pos.col in 0..n+1 symbolic and the three language settings: header and position line are in the configured language only, the quoted line is line pos.line of the input and the caret has pos.col-1 spaces before it"
func VH_C19_fmt() {
	n := vParam("n", 3)
	b := vSymSource("b", n, "a(\n \xc3\xa9")
	lang := vChoice("lang", 3)
	lines := vC19Lines(b)
	line := 1 + vChoice("line", n+1)
	vAssume(line <= len(lines)) // a reported line always exists in the input
	col := vChoice("col", n+2)
	parseErrorLanguage = lang
	err := fmtErr(position{line: line, col: col, offset: 0}, b, errMsgs["syntax"], 0)
	parseErrorLanguage = 0
	vReach("formatted")
	msg := err.Error()
	out := strings.Split(msg, "\n")
	// header language
	switch lang {
	case ParseErrorLanguageChinese:
		vAssert(out[0] == "语法错误", "header-in-configured-language")
	case ParseErrorLanguageEnglish:
		vAssert(out[0] == "Syntax Error", "header-in-configured-language")
	default:
		vAssert(out[0] == "语法错误 Syntax Error", "header-in-configured-language")
	}
	vAssert(len(out) >= 6, "message-shape")
	vAssert(out[2] == "  |  "+string(lines[line-1]), "quoted-line-is-the-reported-line")
	want := col - 1
	if want < 0 {
		want = 0
	}
	vAssert(out[3] == "  |  "+strings.Repeat(" ", want)+"^", "caret-under-the-reported-column")
	last := out[len(out)-1]
	switch lang {
	case ParseErrorLanguageChinese:
		vAssert(strings.HasPrefix(last, "  位置 "), "position-line-in-configured-language")
		vAssert(len(out) == 6, "no-second-language-line")
	case ParseErrorLanguageEnglish:
		vAssert(strings.HasPrefix(last, "  Pos "), "position-line-in-configured-language")
		vAssert(len(out) == 6, "no-second-language-line")
	default:
		vAssert(len(out) == 7, "bilingual-has-both-lines")
	}
}

//vh:prop=C19 tiers=quick,thorough sigkeys=len lencap=80 budget_s=900 bounds="long-line case: one line of 56..70 bytes ('x' repeated, length by case split) with the error column symbolic in 1..len+1: the caret must lie under a displayed character of the quoted (possibly truncated) line or directly after its end"
func VH_C19_longline() {
	ln := 56 + vChoice("len", 15)
	col := 1 + vChoice("col", ln+1)
	input := []byte(strings.Repeat("x", ln))
	err := fmtErr(position{line: 1, col: col, offset: col - 1}, input, errMsgs["syntax"], 0)
	out := strings.Split(err.Error(), "\n")
	vAssert(len(out) >= 6, "message-shape")
	quoted := strings.TrimPrefix(out[2], "  |  ")
	caret := strings.Index(out[3], "^") - len("  |  ")
	vAssert(caret >= 0, "caret-present")
	class := "/line-fits"
	if ln > 60 {
		class = "/line-truncated"
	}
	vAssert(caret <= len(quoted), "caret-within-or-just-after-the-quoted-line"+class)
	vAssert(strings.HasPrefix(string(input), strings.TrimSuffix(quoted, "...")), "quoted-line-is-a-prefix-of-the-line")
}

var vC19BadSources = []string{"", "(1 + 2", "'abc", "\n\n(", "[1, 2", "+"}

// vC19LangOnly: a syntax-error message for an ASCII input is written only in
// the configured language.
func vC19LangOnly(msg string, lang int, who string) {
	if k := strings.Index(msg, "): "); k >= 0 && k < 24 {
		msg = msg[k+3:]
	}
	out := strings.Split(msg, "\n")
	last := out[len(out)-1]
	nonASCII := false
	for i := 0; i < len(msg); i++ {
		if msg[i] >= 0x80 {
			nonASCII = true
		}
	}
	switch lang {
	case ParseErrorLanguageChinese:
		vAssert(out[0] == "语法错误", who+"header-in-configured-language")
		vAssert(strings.HasPrefix(last, "  位置 "), who+"position-line-in-configured-language")
		vAssert(!strings.Contains(msg, "Syntax Error") && !strings.Contains(msg, "  Pos "), who+"no-second-language")
	case ParseErrorLanguageEnglish:
		vAssert(out[0] == "Syntax Error", who+"header-in-configured-language")
		vAssert(strings.HasPrefix(last, "  Pos "), who+"position-line-in-configured-language")
		vAssert(!nonASCII, who+"no-second-language")
	default:
		vAssert(out[0] == "语法错误 Syntax Error", who+"header-in-configured-language")
		vAssert(strings.HasPrefix(last, "  Pos ") && len(out) >= 2 && strings.HasPrefix(out[len(out)-2], "  位置 "), who+"bilingual-has-both-lines")
	}
}

// vC19Op makes vm meet the syntax error in src in one of three ways: as the
// program, as an expression compiled on demand in a sub-VM, or as the
// default-sides expression compiled when a bare 'd' is rolled.
func vC19Op(vm *Context, kind int, src string) error {
	switch kind {
	case 0:
		return vm.Run(src)
	case 1:
		_, err := vm.RunExpr(src, false)
		return err
	default:
		vm.Config.DefaultDiceSideExpr = src
		return vm.Run("d")
	}
}

//vh:prop=C19 tiers=quick,thorough sigkeys=la,lb,op2,op3,s1,s2 budget_s=1500 quick:P.nsrc=4 thorough:P.nsrc=6 bounds="two VMs with different ParseErrorLanguage settings used in turn (A, B, A), each meeting one of nsrc (4 quick, 6 thorough) ill-formed ASCII sources (incl. the empty text) as the program, as an on-demand expression in a sub-VM (RunExpr) or as the default-sides expression: every syntax-error message is in the language of the VM that produced it only, and equals the message the same VM configuration produces first thing in the path's history for the same source"
func VH_C19_cross() {
	nsrc := vParam("nsrc", 4)
	la := vChoice("la", 3)
	lb := (la + 1 + vChoice("lb", 2)) % 3
	op2, op3 := vChoice("op2", 3), vChoice("op3", 3)
	s1 := vC19BadSources[vChoice("s1", nsrc)]
	s2 := vC19BadSources[vChoice("s2", nsrc)]
	a, b := NewVM(), NewVM()
	a.Config.ParseErrorLanguage = la
	b.Config.ParseErrorLanguage = lb
	// a syntax error reads "<line>:<col> (<offset>): <message>"
	isSyntax := func(err error) bool {
		return err != nil && (strings.Contains(err.Error(), "语法错误") || strings.Contains(err.Error(), "Syntax Error"))
	}
	e1 := a.Run(s1)
	vAssert(e1 != nil, "ill-formed-source-is-rejected")
	m1 := ""
	if e1 != nil {
		m1 = e1.Error()
	}
	if isSyntax(e1) {
		vC19LangOnly(m1, la, "first/")
	}
	e2 := vC19Op(b, op2, s2)
	vReach("second")
	if isSyntax(e2) {
		vC19LangOnly(e2.Error(), lb, "other-vm/")
	}
	if e2 != nil {
		vObserve("e2", e2.Error())
	}
	// an error value the host kept reads the same after another VM worked
	if e1 != nil {
		vAssert(e1.Error() == m1, "a-kept-error-keeps-its-text")
	}
	e3 := vC19Op(a, op3, s1)
	if isSyntax(e3) {
		vC19LangOnly(e3.Error(), la, "back-on-first-vm/")
		if op3 == 0 && e1 != nil {
			vAssert(e3.Error() == e1.Error(), "same-source-same-message-on-the-same-vm")
		}
	}
	if e3 != nil {
		vObserve("e3", e3.Error())
	}
}

// texts in which a custom dice term with multi-byte runes (or a line break)
// is consumed before the syntax error
var vC19CustomSources = []string{
	"{a: 优势骰3, b: (",
	"`{优势骰3} ` + (",
	"优势骰3; (1",
	"x = 优势骰3 + 优势骰4; [1, 2",
	"{a: 行\n骰3, b: (",
	"优势骰3 + 1; break",
	"E3; (1",
	"[优势骰3, (",
	"{a: 优势骰3 + 优势骰4, b: [",
	"(优势骰3 + (",
	"优势骰3 + 优势骰3; continue",
	"{a: 优势骰3,\n b: 优势骰4, c: (",
}

//vh:prop=C19 tiers=quick,thorough sigkeys=src,kind,lang budget_s=600 bounds="12 texts (8 rejected as a whole) in which a registered custom dice syntax (regex or stream parser) consumes multi-byte or multi-line text before the error, 3 languages: the reported offset lies in the input and (line, column) are those of that offset by the oracle's definition, for every reported error"
func VH_C19_custom() {
	src := vC19CustomSources[vChoice("src", len(vC19CustomSources))]
	vm := NewVM()
	vm.Config.ParseErrorLanguage = vChoice("lang", 3)
	handler := func(ctx *Context, groups []string, payload any) (*VMValue, string, error) {
		return NewIntVal(3), "", nil
	}
	if vChoice("kind", 2) == 0 {
		vAssert(vm.RegCustomDice(`(优势骰|行\n骰|E)(\d)`, handler) == nil, "regex-registers")
	} else {
		vAssert(vm.RegCustomDiceParser(func(ctx *Context, s *CustomDiceStream) (*CustomDiceParseResult, error) {
			r, ok := s.Read()
			if !ok || (r != '优' && r != '行' && r != 'E') {
				return nil, nil
			}
			for {
				r, ok := s.Read()
				if !ok {
					return nil, nil
				}
				if r >= '0' && r <= '9' {
					return &CustomDiceParseResult{Matched: true}, nil
				}
				if r != '势' && r != '骰' && r != '\n' {
					return nil, nil
				}
			}
		}, handler) == nil, "parser-registers")
	}
	err := vm.Parse(src)
	vReach("parsed")
	if err == nil {
		return // a valid prefix was accepted (C03's concern)
	}
	vReach("rejected")
	el, ok := err.(errList)
	if !ok {
		return
	}
	b := []byte(src)
	for _, e := range el {
		pe, ok := e.(*parserError)
		if !ok {
			continue
		}
		off := pe.pos.offset
		vAssert(off >= 0 && off <= len(b), "offset-within-input")
		wl, wc := vLineCol(b, off)
		if off < len(b) && b[off] == '\n' {
			continue // recorded finding: an error at a newline byte
		}
		vAssert(pe.pos.line == wl, "line-is-the-line-of-the-offset")
		vAssert(pe.pos.col == wc, "column-is-the-column-of-the-offset")
	}
}

// multi-byte tokens of the grammar itself (full-width operators, CJK
// advantage / disadvantage keywords) matched before the error on the same line
var vC19LiteralSources = []string{
	"(1 ＋ ", "(1 / d20优势 % ", "[1 － 2, (", "(2 ＊ 3 ／ ", "(d20劣势 + ", "(1 + 2d20优势 * ", "{a: 1 ＋ 2, b: (", "(d20優勢 - ", "(d20劣勢 ＋ ", "(1 ＋ 2 ＋\n 3 ＋ (",
}

func init() {
	vHarnesses["VH_C19_literals"] = VH_C19_literals
}

//vh:prop=C19 tiers=quick,thorough sigkeys=src,lang budget_s=600 bounds="10 rejected texts in which multi-byte tokens of the grammar itself (full-width + - * /, the CJK advantage / disadvantage keywords in both scripts) are matched before the error, 3 languages: offset within the input, line and column those of the offset by the oracle's definition, caret under that column"
func VH_C19_literals() {
	src := vC19LiteralSources[vChoice("src", len(vC19LiteralSources))]
	vm := NewVM()
	vm.Config.ParseErrorLanguage = vChoice("lang", 3)
	err := vm.Parse(src)
	vReach("parsed")
	vAssert(err != nil, "ill-formed-source-is-rejected")
	if err == nil {
		return
	}
	el, ok := err.(errList)
	if !ok {
		return
	}
	b := []byte(src)
	for _, e := range el {
		pe, ok := e.(*parserError)
		if !ok {
			continue
		}
		off := pe.pos.offset
		vAssert(off >= 0 && off <= len(b), "offset-within-input")
		wl, wc := vLineCol(b, off)
		if off < len(b) && b[off] == '\n' {
			continue // recorded finding: an error at a newline byte
		}
		vAssert(pe.pos.line == wl, "line-is-the-line-of-the-offset")
		vAssert(pe.pos.col == wc, "column-is-the-column-of-the-offset")
	}
}
