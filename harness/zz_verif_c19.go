//go:build verif

package dicescript

import (
	"strings"
	"unicode/utf8"
)

func init() {
	vHarnesses["VH_C19_pos"] = VH_C19_pos
	vHarnesses["VH_C19_fmt"] = VH_C19_fmt
	vHarnesses["VH_C19_longline"] = VH_C19_longline
}

// vLineCol is the oracle's definition of "line and column of an offset":
// line = 1 + number of '\n' before the offset; column = 1 + number of runes
// between the start of that line and the offset.  (An offset pointing at a
// '\n' byte therefore lies on the line that the '\n' terminates.)
func vLineCol(b []byte, offset int) (line, col int) {
	line, col = 1, 1
	i := 0
	for i < offset && i < len(b) {
		// runes as Go decodes them (an invalid byte is one rune)
		r, w := utf8.DecodeRune(b[i:])
		if r == '\n' {
			line++
			col = 1
		} else {
			col++
		}
		i += w
	}
	return
}

//vh:prop=C19 tiers=quick,thorough sigkeys=lang unwind=400 unwind_ok=1 budget_s=2400 quick:P.n=4 thorough:P.n=5 bounds="every input of exactly n bytes (4 quick, 5 thorough) over {a 1 ( ) + ' & . space newline} and the bytes of the two multi-byte runes e-acute and a CJK character; on every rejecting path the reported offset is within the input and (line, col) are those of that offset by the oracle's definition"
func VH_C19_pos() {
	n := vParam("n", 3)
	b := vSymSource("b", n, "a1()+'&. \n\xc3\xa9\xe6\xb1\x89")
	vm := NewVM()
	vm.Config.ParseErrorLanguage = vChoice("lang", 3)
	err := vm.Parse(string(b))
	vReach("parsed")
	if err == nil {
		return
	}
	el, ok := err.(errList)
	vAssert(ok, "syntax-error-is-an-error-list")
	for _, e := range el {
		pe, ok := e.(*parserError)
		if !ok {
			continue
		}
		off := pe.pos.offset
		vAssert(off >= 0 && off <= n, "offset-within-input")
		wl, wc := vLineCol(b, off)
		class := "/elsewhere"
		if off < n && b[off] == '\n' {
			class = "/offset-at-a-newline-byte"
		}
		vAssert(pe.pos.line == wl, "line-is-the-line-of-the-offset"+class)
		vAssert(pe.pos.col == wc, "column-is-the-column-of-the-offset"+class)
	}
}

func vC19Lines(b []byte) [][]byte {
	var out [][]byte
	start := 0
	for i := range b {
		if b[i] == '\n' {
			out = append(out, b[start:i])
			start = i + 1
		}
	}
	return append(out, b[start:])
}

//vh:prop=C19 tiers=quick,thorough sigkeys=lang unwind=400 unwind_ok=1 lencap=12 budget_s=1500 quick:P.n=3 thorough:P.n=4 bounds="fmtErr on every input of n bytes (3 quick, 4 thorough) over {a ( newline space} plus a 2-byte rune, with pos.line in 1..n+1 and pos.col in 0..n+1 symbolic and the three language settings: header and position line are in the configured language only, the quoted line is line pos.line of the input and the caret has pos.col-1 spaces before it"
func VH_C19_fmt() {
	n := vParam("n", 3)
	b := vSymSource("b", n, "a(\n \xc3\xa9")
	lang := vChoice("lang", 3)
	lines := vC19Lines(b)
	line := 1 + vChoice("line", n+1)
	vAssume(line <= len(lines)) // a reported line always exists in the input
	col := vChoice("col", n+2)
	parseErrorLanguage = lang
	err := fmtErr(position{line: line, col: col, offset: 0}, b, errMsgs["syntax"], 0)
	parseErrorLanguage = 0
	vReach("formatted")
	msg := err.Error()
	out := strings.Split(msg, "\n")
	// header language
	switch lang {
	case ParseErrorLanguageChinese:
		vAssert(out[0] == "语法错误", "header-in-configured-language")
	case ParseErrorLanguageEnglish:
		vAssert(out[0] == "Syntax Error", "header-in-configured-language")
	default:
		vAssert(out[0] == "语法错误 Syntax Error", "header-in-configured-language")
	}
	vAssert(len(out) >= 6, "message-shape")
	vAssert(out[2] == "  |  "+string(lines[line-1]), "quoted-line-is-the-reported-line")
	want := col - 1
	if want < 0 {
		want = 0
	}
	vAssert(out[3] == "  |  "+strings.Repeat(" ", want)+"^", "caret-under-the-reported-column")
	last := out[len(out)-1]
	switch lang {
	case ParseErrorLanguageChinese:
		vAssert(strings.HasPrefix(last, "  位置 "), "position-line-in-configured-language")
		vAssert(len(out) == 6, "no-second-language-line")
	case ParseErrorLanguageEnglish:
		vAssert(strings.HasPrefix(last, "  Pos "), "position-line-in-configured-language")
		vAssert(len(out) == 6, "no-second-language-line")
	default:
		vAssert(len(out) == 7, "bilingual-has-both-lines")
	}
}

//vh:prop=C19 tiers=quick,thorough sigkeys=len lencap=80 budget_s=900 bounds="long-line case: one line of 56..70 bytes ('x' repeated, length by case split) with the error column symbolic in 1..len+1: the caret must lie under a displayed character of the quoted (possibly truncated) line or directly after its end"
func VH_C19_longline() {
	ln := 56 + vChoice("len", 15)
	col := 1 + vChoice("col", ln+1)
	input := []byte(strings.Repeat("x", ln))
	err := fmtErr(position{line: 1, col: col, offset: col - 1}, input, errMsgs["syntax"], 0)
	out := strings.Split(err.Error(), "\n")
	vAssert(len(out) >= 6, "message-shape")
	quoted := strings.TrimPrefix(out[2], "  |  ")
	caret := strings.Index(out[3], "^") - len("  |  ")
	vAssert(caret >= 0, "caret-present")
	class := "/line-fits"
	if ln > 60 {
		class = "/line-truncated"
	}
	vAssert(caret <= len(quoted), "caret-within-or-just-after-the-quoted-line"+class)
	vAssert(strings.HasPrefix(string(input), strings.TrimSuffix(quoted, "...")), "quoted-line-is-a-prefix-of-the-line")
}
