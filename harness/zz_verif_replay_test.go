//go:build verif

package dicescript

import (
	"bufio"
	"encoding/json"
	"fmt"
	"os"
	"runtime/debug"
	"strings"
	"testing"
	"time"
)

// TestVerifReplay replays solver models against the natively compiled code.
// VERIF_REPLAY_LIST names a file with one replay json path per line; one
// result line is printed per path:
//   VREPLAY <path> <outcome> <detail>
// outcome: ok | assert | panic | assume | hang
func TestVerifReplay(t *testing.T) {
	list := os.Getenv("VERIF_REPLAY_LIST")
	if list == "" {
		t.Skip("no VERIF_REPLAY_LIST")
	}
	f, err := os.Open(list)
	if err != nil {
		t.Fatal(err)
	}
	defer f.Close()
	sc := bufio.NewScanner(f)
	for sc.Scan() {
		path := strings.TrimSpace(sc.Text())
		if path == "" {
			continue
		}
		fmt.Printf("VREPLAY-BEGIN %s\n", path)
		outcome, detail := vReplayOne(path)
		detail = strings.ReplaceAll(detail, "\n", "\\n")
		fmt.Printf("VREPLAY %s %s %s\n", path, outcome, detail)
	}
}

func vReplayOne(path string) (outcome, detail string) {
	data, err := os.ReadFile(path)
	if err != nil {
		return "error", err.Error()
	}
	var rf vReplayFile
	if err := json.Unmarshal(data, &rf); err != nil {
		return "error", err.Error()
	}
	h := vHarnesses[rf.Harness]
	if h == nil {
		return "error", "unknown harness " + rf.Harness
	}
	type res struct{ o, d string }
	ch := make(chan res, 1)
	go func() {
		defer func() {
			if r := recover(); r != nil {
				switch e := r.(type) {
				case vAssertFailure:
					ch <- res{"assert", e.tag}
				case vAssumeFailure:
					ch <- res{"assume", ""}
				default:
					st := string(debug.Stack())
					if i := strings.Index(st, "panic("); i >= 0 {
						st = st[i:]
					}
					if len(st) > 1500 {
						st = st[:1500]
					}
					ch <- res{"panic", fmt.Sprintf("%v || %s", r, st)}
				}
				return
			}
			ob, _ := json.Marshal(vR.obs)
			ch <- res{"ok", strings.Join(vR.reached, ",") + " ||OBS|| " + string(ob)}
		}()
		vReset(&rf)
		h()
	}()
	select {
	case r := <-ch:
		return r.o, r.d
	case <-time.After(20 * time.Second):
		return "hang", "no result after 20s"
	}
}
