//go:build verif

package dicescript

import (
	"strings"

	"golang.org/x/exp/rand"
)

func init() {
	vHarnesses["VH_C04_common"] = VH_C04_common
	vHarnesses["VH_C04_fate"] = VH_C04_fate
	vHarnesses["VH_C04_coc"] = VH_C04_coc
	vHarnesses["VH_C04_params"] = VH_C04_params
	vHarnesses["VH_C04_wod"] = VH_C04_wod
	vHarnesses["VH_C04_dc"] = VH_C04_dc
}

// vPoolRounds splits the detail skeleton " {#*,<#>},{#}" of a WoD / DC roll
// into rounds of per-die marks; ok=false when the shape is not
// "{die,die,...},{...}" with die one of # #* <#> <#*>.
func vPoolRounds(skel string) (rounds [][]string, ok bool) {
	if skel == "" {
		return nil, true
	}
	if !strings.HasPrefix(skel, " {") || !strings.HasSuffix(skel, "}") {
		return nil, false
	}
	for _, r := range strings.Split(skel[2:len(skel)-1], "},{") {
		dice := strings.Split(r, ",")
		for _, d := range dice {
			switch d {
			case "#", "#*", "<#>", "<#*>":
			default:
				return nil, false
			}
		}
		rounds = append(rounds, dice)
	}
	return rounds, true
}

//vh:prop=C04 tiers=quick,thorough solver=z3-new/int summaries=Roll:roll-contract unwind=16 unwind_ok=1 quick:P.maxPool=3 quick:P.maxDice=6 thorough:P.maxPool=4 thorough:P.maxDice=9 bounds="RollWoD: pool in 1..maxPool (3 quick, 4 thorough) by case split, at most maxDice dice in all rounds together (6 quick, 9 thorough; longer explosions are outside the claim); sides and success threshold 64-bit symbols in [1,2^40], add-line 0 or a 64-bit symbol >= 2, comparison direction a symbolic boolean; each die is Roll's contract (C05)"
func VH_C04_wod() {
	src := &rand.PCGSource{}
	pool := 1 + vChoice("pool", vParam("maxPool", 2))
	vMaxDraws(vParam("maxDice", 5))
	points := vInt64("points")
	vAssume(points >= 1)
	vAssume(points <= 1<<40)
	threshold := vInt64("threshold")
	vAssume(threshold >= 1)
	vAssume(threshold <= 1<<40)
	addLine := int64(0)
	if vBool("explodes") {
		addLine = vInt64("addline")
		vAssume(addLine >= 2)
		vAssume(addLine <= 1<<40)
	}
	isGE := vBool("ge")

	succ, total, nrounds, text := RollWoD(src, IntType(addLine), IntType(pool), IntType(points), IntType(threshold), isGE, 0)
	vReach("rolled")
	vObserve("succ", succ)
	vObserve("total", total)
	vObserve("rounds", nrounds)
	vObserve("text", text)

	n := vDrawCount()
	vAssert(vDrawsFrom(src) == n, "draws-from-given-source")
	vAssert(int64(total) == int64(n), "total-dice-count-equals-dice-rolled")
	// the rule, from the dice as rolled
	wantSucc, wantRounds := int64(0), 0
	var marks [][]string
	k, size := 0, pool
	for size > 0 {
		wantRounds++
		add := 0
		var round []string
		for i := 0; i < size; i++ {
			d := int64(vDraw(k)) + 1
			k++
			vAssert(vAnd(d >= 1, d <= points), "die-in-face-range")
			m := "#"
			var ok bool
			if isGE {
				ok = d >= threshold
			} else {
				ok = d <= threshold
			}
			if ok {
				wantSucc++
				m += "*"
			}
			if addLine != 0 && d >= addLine {
				add++
				m = "<" + m + ">"
			}
			round = append(round, m)
		}
		marks = append(marks, round)
		size = add
	}
	vAssert(k == n, "number-of-dice-follows-the-exploding-rule")
	vAssert(int64(succ) == wantSucc, "success-count-is-what-the-dice-imply")
	vAssert(int(nrounds) == wantRounds, "round-count-follows-the-rule")

	// the text: "成功S/N[ 轮数:R] {..},{..}"
	shown := vStrInts(text)
	skel := vStrSkel(text)
	head := "成功#/#"
	if wantRounds > 1 {
		head += " 轮数:#"
	}
	vAssert(strings.HasPrefix(skel, head), "detail-shape")
	hn := strings.Count(head, "#")
	vAssert(shown[0] == int64(succ), "text-shows-the-success-count")
	vAssert(shown[1] == int64(total), "text-shows-the-dice-count")
	if wantRounds > 1 {
		vAssert(shown[2] == int64(wantRounds), "text-shows-the-round-count")
	}
	rounds, ok := vPoolRounds(skel[len(head):])
	vAssert(ok, "detail-shape")
	vAssert(len(rounds) == wantRounds, "one-group-per-round")
	k = 0
	for r := range rounds {
		vAssert(len(rounds[r]) == len(marks[r]), "number-of-dice-shown-matches-the-rule")
		for i := range rounds[r] {
			vAssert(rounds[r][i] == marks[r][i], "success/explode-marks-match-the-die")
			vAssert(shown[hn+k] == int64(vDraw(k))+1, "shown-dice-are-the-rolled-dice")
			k++
		}
	}
}

//vh:prop=C04 tiers=quick,thorough solver=z3-new/int summaries=Roll:roll-contract unwind=16 unwind_ok=1 quick:P.maxPool=3 quick:P.maxDice=6 thorough:P.maxPool=4 thorough:P.maxDice=9 bounds="RollDoubleCross: pool in 1..maxPool (3 quick, 4 thorough) by case split, at most maxDice dice in all rounds together (6 quick, 9 thorough); sides 64-bit symbol in [1,2^40], critical line 64-bit symbol in [2,11] or above the sides (the rule -a round with a critical die scores 10- says nothing sensible when a non-critical die can exceed 10, so 11 < line <= sides is outside the claim); each die is Roll's contract (C05)"
func VH_C04_dc() {
	src := &rand.PCGSource{}
	pool := 1 + vChoice("pool", vParam("maxPool", 2))
	vMaxDraws(vParam("maxDice", 5))
	points := vInt64("points")
	vAssume(points >= 1)
	vAssume(points <= 1<<40)
	addLine := vInt64("addline")
	vAssume(addLine >= 2)
	vAssume(addLine <= 1<<40)
	vAssume(vOr(addLine <= 11, addLine > points))

	res, total, nrounds, text := RollDoubleCross(src, IntType(addLine), IntType(pool), IntType(points), 0)
	vReach("rolled")
	vObserve("res", res)
	vObserve("total", total)
	vObserve("rounds", nrounds)
	vObserve("text", text)

	n := vDrawCount()
	vAssert(vDrawsFrom(src) == n, "draws-from-given-source")
	vAssert(int64(total) == int64(n), "total-dice-count-equals-dice-rolled")
	// the rule: every round with a critical die scores 10 and re-rolls the
	// critical dice; the last round scores its highest die
	want, wantRounds := int64(0), 0
	var marks [][]string
	k, size := 0, pool
	for size > 0 {
		wantRounds++
		add := 0
		best := int64(0)
		var round []string
		for i := 0; i < size; i++ {
			d := int64(vDraw(k)) + 1
			k++
			vAssert(vAnd(d >= 1, d <= points), "die-in-face-range")
			best = vIteInt64(d > best, d, best)
			if d >= addLine {
				add++
				round = append(round, "<#>")
			} else {
				round = append(round, "#")
			}
		}
		if add > 0 {
			want += 10
		} else {
			want += best
		}
		marks = append(marks, round)
		size = add
	}
	vAssert(k == n, "number-of-dice-follows-the-exploding-rule")
	vAssert(int64(res) == want, "result-is-what-the-dice-imply")
	vAssert(int(nrounds) == wantRounds, "round-count-follows-the-rule")

	shown := vStrInts(text)
	skel := vStrSkel(text)
	head := "出目#/#"
	if strings.HasPrefix(skel, "大失败 ") {
		vAssert(int64(res) == 1, "fumble-only-when-result-is-1")
		skel = skel[len("大失败 "):]
	} else {
		vAssert(int64(res) != 1, "fumble-shown-when-result-is-1")
	}
	if wantRounds > 1 {
		head += " 轮数:#"
	}
	vAssert(strings.HasPrefix(skel, head), "detail-shape")
	hn := strings.Count(head, "#")
	vAssert(shown[0] == int64(res), "text-shows-the-result")
	vAssert(shown[1] == int64(total), "text-shows-the-dice-count")
	if wantRounds > 1 {
		vAssert(shown[2] == int64(wantRounds), "text-shows-the-round-count")
	}
	rounds, ok := vPoolRounds(skel[len(head):])
	vAssert(ok, "detail-shape")
	vAssert(len(rounds) == wantRounds, "one-group-per-round")
	k = 0
	for r := range rounds {
		vAssert(len(rounds[r]) == len(marks[r]), "number-of-dice-shown-matches-the-rule")
		for i := range rounds[r] {
			vAssert(rounds[r][i] == marks[r][i], "critical-marks-match-the-die")
			vAssert(shown[hn+k] == int64(vDraw(k))+1, "shown-dice-are-the-rolled-dice")
			k++
		}
	}
}

// vCountEq returns how many elements of xs equal v (as a symbolic sum).
func vCountEq(xs []int64, v int64) int64 {
	n := int64(0)
	for _, x := range xs {
		n += vIteInt64(x == v, 1, 0)
	}
	return n
}

//vh:prop=C04 tiers=quick,thorough solver=z3-new/int summaries=Roll:roll-contract unwind=12 quick:P.maxTimes=3 thorough:P.maxTimes=4 bounds="RollCommon: times in 1..maxTimes (3 quick, 4 thorough) by case split; sides, keep/drop counts, min, max 64-bit symbols with 1<=sides<=2^40, |count|<=2^40, |min|,|max|<=2^40 (no int64 overflow of the true sum); min<=max when both given; each die is Roll's contract (C05): a fresh value in [1,sides]"
func VH_C04_common() {
	src := &rand.PCGSource{}
	maxTimes := vParam("maxTimes", 3)
	times := 1 + vChoice("times", maxTimes)
	sides := vInt64("sides")
	vAssume(sides >= 1)
	vAssume(sides <= 1<<40)
	lh := vChoice("keepmode", 5)
	var low, high int64
	if lh == 1 || lh == 3 {
		low = vInt64("low")
		vAssume(low >= -(1 << 40))
		vAssume(low <= 1<<40)
	}
	if lh == 2 || lh == 4 {
		high = vInt64("high")
		vAssume(high >= -(1 << 40))
		vAssume(high <= 1<<40)
	}
	var pmin, pmax *IntType
	var dmin, dmax int64
	mm := vChoice("minmax", 4)
	if mm&1 != 0 {
		dmin = vInt64("min")
		vAssume(dmin >= -(1 << 40))
		vAssume(dmin <= 1<<40)
		x := IntType(dmin)
		pmin = &x
	}
	if mm&2 != 0 {
		dmax = vInt64("max")
		vAssume(dmax >= -(1 << 40))
		vAssume(dmax <= 1<<40)
		x := IntType(dmax)
		pmax = &x
	}
	if mm == 3 {
		vAssume(dmin <= dmax)
	}

	num, text := RollCommon(src, IntType(times), IntType(sides), pmin, pmax, IntType(lh), IntType(low), IntType(high), 0)
	vReach("rolled")
	vObserve("num", num)
	vObserve("text", text)

	// the dice as rolled, then clamped by the documented min/max modifiers
	vAssert(vDrawCount() == times, "one-draw-per-die")
	vAssert(vDrawsFrom(src) == times, "draws-from-given-source")
	clamped := make([]int64, times)
	for i := 0; i < times; i++ {
		d := int64(vDraw(i)) + 1 // Roll contract: accepted output v < sides gives v+1
		vAssert(vAnd(d >= 1, d <= sides), "die-in-face-range")
		if mm&2 != 0 {
			d = vIteInt64(d > dmax, dmax, d)
		}
		if mm&1 != 0 {
			d = vIteInt64(d < dmin, dmin, d)
		}
		clamped[i] = d
	}

	shown := vStrInts(text)
	skel := vStrSkel(text)
	vAssert(len(shown) == times, "number-of-dice-shown-equals-times")
	// shown dice are a permutation of the clamped dice
	for i := 0; i < times; i++ {
		vAssert(vCountEq(shown, clamped[i]) == vCountEq(clamped, clamped[i]), "shown-dice-are-the-rolled-dice")
	}
	// how many are kept, by the rule
	var want int64 = int64(times)
	switch lh {
	case 1:
		want = low
	case 2:
		want = high
	case 3:
		want = int64(times) - low
	case 4:
		want = int64(times) - high
	}
	want = vIteInt64(want < 0, 0, want)
	want = vIteInt64(want > int64(times), int64(times), want)
	// what the text displays as kept
	kept := times
	if strings.HasPrefix(skel, "{") {
		vAssert(strings.HasSuffix(skel, "}"), "detail-shape")
		bar := strings.Index(skel, "|")
		if bar < 0 {
			kept = times
			vFail("detail-shape: braces without bar")
		} else {
			kept = strings.Count(skel[:bar], "#")
		}
	} else {
		vAssert(skel == strings.TrimSuffix(strings.Repeat("#+", times), "+"), "detail-shape")
	}
	vAssert(int64(kept) == want, "kept-count-follows-the-keep/drop-rule")
	// kept dice are the extreme ones
	if lh != 0 {
		for i := 0; i+1 < times; i++ {
			if lh == 1 || lh == 4 {
				vAssert(shown[i] <= shown[i+1], "low-dice-first")
			} else {
				vAssert(shown[i] >= shown[i+1], "high-dice-first")
			}
		}
	} else {
		for i := 0; i < times; i++ {
			vAssert(shown[i] == clamped[i], "dice-shown-in-roll-order")
		}
	}
	// total = sum of kept dice
	sum := int64(0)
	for i := 0; i < kept; i++ {
		sum += shown[i]
	}
	vAssert(int64(num) == sum, "total-is-sum-of-kept-dice")
}

//vh:prop=C04 tiers=quick,thorough summaries=Roll:roll-contract bounds="RollFate: four dice, each Roll's contract on 3 sides"
func VH_C04_fate() {
	src := &rand.PCGSource{}
	sum, text := RollFate(src, 0)
	vObserve("sum", sum)
	vObserve("text", text)
	vAssert(vDrawCount() == 4, "four-dice")
	vAssert(vDrawsFrom(src) == 4, "draws-from-given-source")
	vAssert(len(text) == 4, "four-symbols")
	want := int64(0)
	for i := 0; i < 4; i++ {
		f := int64(vDraw(i)) + 1 - 2
		vAssert(vAnd(f >= -1, f <= 1), "fate-die-in-range")
		want += f
		c := text[i]
		vAssert(vOr(vOr(vAnd(f == -1, c == '-'), vAnd(f == 0, c == '0')), vAnd(f == 1, c == '+')), "symbol-matches-die")
	}
	vAssert(int64(sum) == want, "total-is-sum-of-symbols")
}

//vh:prop=C04 tiers=quick,thorough summaries=Roll:roll-contract unwind=40 quick:P.maxK=2 thorough:P.maxK=3 bounds="RollCoC: bonus and penalty, k extra tens dice in 0..maxK (2 quick, 3 thorough); dice are Roll's contract on 100 and 10 sides"
func VH_C04_coc() {
	src := &rand.PCGSource{}
	k := vChoice("k", vParam("maxK", 2)+1)
	bonus := vChoice("bonus", 2) == 1
	r, text := RollCoC(src, bonus, IntType(k), 0)
	vReach("rolled")
	vObserve("r", r)
	vObserve("text", text)
	vAssert(vDrawCount() == k+1, "one-d100-plus-k-tens-dice")
	vAssert(vDrawsFrom(src) == k+1, "draws-from-given-source")
	d100 := int64(vDraw(0)) + 1
	units := d100 % 10
	tens := d100 / 10
	// candidate results: original tens digit and each extra tens die (10 reads as 0)
	val := func(t int64) int64 {
		v := t*10 + units
		return vIteInt64(v == 0, 100, v)
	}
	t0 := vIteInt64(tens == 10, 0, tens)
	best := val(t0)
	nums := vStrInts(text)
	vAssert(len(nums) == k+2, "detail-lists-D100-and-k-digits") // "D100" literal, the roll, k digits
	vAssert(nums[0] == 100, "detail-shape")
	vAssert(nums[1] == d100, "detail-shows-original-roll")
	for i := 0; i < k; i++ {
		ti := int64(vDraw(i+1)) + 1
		ti = vIteInt64(ti == 10, 0, ti)
		vAssert(nums[2+i] == ti, "detail-shows-each-tens-digit")
		c := val(ti)
		if bonus {
			best = vIteInt64(c < best, c, best)
		} else {
			best = vIteInt64(c > best, c, best)
		}
	}
	vAssert(int64(r) == best, "result-is-best/worst-candidate")
	vAssert(vAnd(int64(r) >= 1, int64(r) <= 100), "result-in-1..100")
}

// vC04Param is a dice parameter: an integer (symbolic) or a non-integer value.
func vC04Param(label string) (v *VMValue, isInt bool, i int64) {
	switch vChoice(label+"_kind", 4) {
	case 0:
		i = vInt64(label)
		return NewIntVal(IntType(i)), true, i
	case 1:
		return NewFloatVal(1.5), false, 0
	case 2:
		return NewStrVal("3"), false, 0
	default:
		return NewNullVal(), false, 0
	}
}

var vC04ParamForms = []struct {
	src string
	// legal reports whether integer parameters x, y, z are legal for the form
	legal func(x, y, z int64) bool
	n     int
}{
	{"(x)d(y)", func(x, y, z int64) bool { return x >= 1 && y >= 1 }, 2},
	{"2d6k(x)", func(x, y, z int64) bool { return x >= 1 }, 1},
	{"2d6q(x)", func(x, y, z int64) bool { return x >= 1 }, 1},
	{"2d6dh(x)", func(x, y, z int64) bool { return x >= 1 }, 1},
	{"2d6dl(x)", func(x, y, z int64) bool { return x >= 1 }, 1},
	{"2d6min(x)", func(x, y, z int64) bool { return true }, 1},
	{"2d6max(x)", func(x, y, z int64) bool { return true }, 1},
	{"b(x)", func(x, y, z int64) bool { return x >= 0 }, 1},
	{"p(x)", func(x, y, z int64) bool { return x >= 0 }, 1},
	{"(x)a(y)", func(x, y, z int64) bool { return x >= 1 && x <= 20000 && (y == 0 || y >= 2) }, 2},
	{"(x)a(y)m(z)", func(x, y, z int64) bool { return x >= 1 && x <= 20000 && (y == 0 || y >= 2) && z >= 1 }, 3},
	{"2a10k(x)", func(x, y, z int64) bool { return x >= 1 }, 1},
	{"2a10q(x)", func(x, y, z int64) bool { return x >= 1 }, 1},
	{"(x)c(y)", func(x, y, z int64) bool { return x >= 1 && x <= 20000 && y >= 2 }, 2},
	{"(x)c(y)m(z)", func(x, y, z int64) bool { return x >= 1 && x <= 20000 && y >= 2 && z >= 1 }, 3},
}

//vh:prop=C04 tiers=quick,thorough sigkeys=form,x_kind,y_kind,z_kind summaries=Roll:roll-log unwind=4 unwind_ok=1 maxsteps=30000000 budget_s=1200 bounds="parameter validation through the VM syntax: 15 dice forms whose parameters x, y, z are variables ranging over {integer (64-bit symbol), float, string, null}: a non-integer or out-of-range parameter (count/sides/keep < 1, pool outside 1..20000, add-line 1 or < 0, sides/threshold < 1, negative bonus count) must be rejected with an error; legal tuples must not be (pools capped at 3 by the unwind bound for the legal case)"
func VH_C04_params() {
	fi := vParam("form", -1)
	if fi < 0 {
		fi = vChoice("form", len(vC04ParamForms))
	}
	f := vC04ParamForms[fi]
	vm := vNewVM()
	vm.Config.OpCountLimit = 200000
	var ints [3]int64
	allInt := true
	names := []string{"x", "y", "z"}
	for k := 0; k < f.n; k++ {
		if k == 2 {
			// the sides parameter of pools: representative integers (a symbolic
			// side count would make every die of the pool fork)
			switch vChoice("z_kind", 6) {
			case 0, 1, 2, 3:
				i := []int64{-1, 0, 1, 10}[vChoice("z_val", 4)]
				vm.Attrs.Store("z", NewIntVal(IntType(i)))
				ints[2] = i
			case 4:
				vm.Attrs.Store("z", NewFloatVal(1.5))
				allInt = false
			default:
				vm.Attrs.Store("z", NewStrVal("3"))
				allInt = false
			}
			continue
		}
		v, isInt, i := vC04Param(names[k])
		vm.Attrs.Store(names[k], v)
		ints[k] = i
		allInt = allInt && isInt
	}
	err := vm.Run(f.src)
	vReach("ran")
	if !allInt {
		vAssert(err != nil, "non-integer-parameter-is-rejected")
		return
	}
	if f.legal(ints[0], ints[1], ints[2]) {
		// (counts beyond the operation budget are legitimately refused)
		if ints[0] <= 1000 && ints[1] <= 1000 {
			vAssert(err == nil, "legal-parameters-are-accepted")
		}
	} else {
		vAssert(err != nil, "illegal-parameters-are-rejected")
	}
}
