//go:build verif

package dicescript

import "fmt"

func init() {
	vHarnesses["VH_C12_conc"] = VH_C12_conc
	vHarnesses["VH_C12_hist"] = VH_C12_hist
	vHarnesses["VH_C12_step"] = VH_C12_step
}

var vC12Keys = []string{"a", "b", "c"}

// one operation applied to the implementation and to a reference Go map;
// returns false if the results differ.
func vC12Apply(m *ValueMap, ref map[string]*VMValue, op int, key string, val *VMValue) {
	switch op {
	case 0: // Store
		m.Store(key, val)
		ref[key] = val
	case 1: // Load
		got, ok := m.Load(key)
		want, wok := ref[key]
		vAssert(ok == wok, "Load.ok")
		vAssert(got == want, "Load.value")
	case 2: // LoadOrStore
		got, loaded := m.LoadOrStore(key, val)
		want, wok := ref[key]
		if !wok {
			ref[key] = val
			want = val
		}
		vAssert(loaded == wok, "LoadOrStore.loaded")
		vAssert(got == want, "LoadOrStore.value")
	case 3: // LoadAndDelete
		got, loaded := m.LoadAndDelete(key)
		want, wok := ref[key]
		delete(ref, key)
		vAssert(loaded == wok, "LoadAndDelete.loaded")
		vAssert(got == want, "LoadAndDelete.value")
	case 4: // Delete
		m.Delete(key)
		delete(ref, key)
	case 5: // Clear
		m.Clear()
		for k := range ref {
			delete(ref, k)
		}
	case 6: // Range
		seen := map[string]int{}
		m.Range(func(k string, v *VMValue) bool {
			seen[k]++
			vAssert(ref[k] == v, "Range.visits-live-pair")
			return true
		})
		vAssert(len(seen) == len(ref), "Range.visits-every-live-key")
		for _, n := range seen {
			vAssert(n == 1, "Range.visits-once")
		}
	case 7: // Length
		vAssert(m.Length() == len(ref), "Length.equals-live-keys")
	case 8: // Range with early stop
		n := 0
		m.Range(func(k string, v *VMValue) bool {
			n++
			return false
		})
		vAssert(n <= 1, "Range.honours-stop")
		vAssert((n == 1) == (len(ref) > 0), "Range.stop-visits-one-if-nonempty")
	}
}

const vC12KeyOps = 5 // ops 0..4 take a key
const vC12Ops = 9

func vC12Check(m *ValueMap, ref map[string]*VMValue) {
	vAssert(m.Length() == len(ref), "final.Length")
	for _, k := range vC12Keys {
		got, ok := m.Load(k)
		want, wok := ref[k]
		vAssert(ok == wok, "final.Load.ok")
		vAssert(got == want, "final.Load.value")
	}
	n := 0
	m.Range(func(k string, v *VMValue) bool {
		n++
		vAssert(ref[k] == v, "final.Range.pair")
		return true
	})
	vAssert(n == len(ref), "final.Range.count")
}

//vh:prop=C12 tiers=quick,thorough quick:P.len=3 quick:P.keys=3 thorough:P.len=4 thorough:P.keys=3 budget_s=1500 bounds="all sequences of exactly len operations (3 quick, 4 thorough; shorter histories are prefixes, every operation's result is checked) from {Store, Load, LoadOrStore, LoadAndDelete, Delete} x keys {a,b,c} and {Clear, Range, Length, Range-with-stop}, on an initially empty ValueMap, against a Go map; values are distinct pointers"
func VH_C12_hist() {
	L := vParam("len", 3)
	nk := vParam("keys", 3)
	m := &ValueMap{}
	ref := map[string]*VMValue{}
	for i := 0; i < L; i++ {
		c := vChoice("op", vC12KeyOps*nk+(vC12Ops-vC12KeyOps))
		op, key := 0, ""
		if c < vC12KeyOps*nk {
			op, key = c/nk, vC12Keys[c%nk]
		} else {
			op = vC12KeyOps + (c - vC12KeyOps*nk)
		}
		vC12Apply(m, ref, op, key, NewIntVal(IntType(100+i)))
	}
	vReach("sequence-done")
	vC12Check(m, ref)
}

// vC12Inv is the representation invariant of ValueMap (DESIGN.md §3 INV_map).
func vC12Inv(m *ValueMap) bool {
	read, _ := m.read.Load().(readOnlyValueMap)
	if m.mu.TryLock() {
		m.mu.Unlock()
	} else {
		return false // mutex must be free between calls
	}
	if m.misses < 0 || m.misses > len(m.dirty) {
		return false
	}
	if m.dirty == nil {
		if read.amended || m.misses != 0 {
			return false
		}
		for _, e := range read.m {
			if e.p == expungedValueMap {
				return false
			}
		}
		return true
	}
	for k, e := range read.m {
		d, inDirty := m.dirty[k]
		if e.p == expungedValueMap {
			if inDirty {
				return false
			}
		} else if !inDirty || d != e {
			return false
		}
	}
	for k, d := range m.dirty {
		if d.p == expungedValueMap {
			return false
		}
		if _, inRead := read.m[k]; !inRead && !read.amended {
			return false
		}
	}
	return true
}

// vC12Abs is the abstraction function: the map the structure denotes.
func vC12Abs(m *ValueMap) map[string]*VMValue {
	out := map[string]*VMValue{}
	read, _ := m.read.Load().(readOnlyValueMap)
	get := func(e *entryValueMap) (*VMValue, bool) {
		if e.p == nil || e.p == expungedValueMap {
			return nil, false
		}
		return *(**VMValue)(e.p), true
	}
	for k, e := range read.m {
		if v, ok := get(e); ok {
			out[k] = v
		}
	}
	if read.amended {
		for k, e := range m.dirty {
			if _, inRead := read.m[k]; inRead {
				continue
			}
			if v, ok := get(e); ok {
				out[k] = v
			}
		}
	}
	return out
}

//vh:prop=C12 tiers=quick,thorough budget_s=1500 bounds="inductive step: every representation state over keys {a,b} satisfying INV_map (per key: absent / in read with p in {nil, expunged, value} / only in dirty with p in {nil, value}; dirty nil or not; amended; misses symbolic), then ONE operation of each kind with key in {a,b,c}; results compared with the abstract map, INV_map re-established; covers histories of any length over these keys"
func VH_C12_step() {
	m := &ValueMap{}
	rm := map[string]*entryValueMap{}
	var dm map[string]*entryValueMap
	dirtyNil := vChoice("dirtyNil", 2) == 1
	if !dirtyNil {
		dm = map[string]*entryValueMap{}
	}
	amended := vChoice("amended", 2) == 1
	for i, k := range []string{"a", "b"} {
		val := NewIntVal(IntType(10 + i))
		switch vChoice("state_"+k, 6) {
		case 0: // absent everywhere
		case 1: // in read, deleted (p == nil)
			e := &entryValueMap{}
			rm[k] = e
			if dm != nil {
				dm[k] = e
			}
		case 2: // in read, expunged
			rm[k] = &entryValueMap{p: expungedValueMap}
		case 3: // in read, live
			e := newEntryValueMap(val)
			rm[k] = e
			if dm != nil {
				dm[k] = e
			}
		case 4: // only in dirty, deleted
			vAssume(dm != nil)
			dm[k] = &entryValueMap{}
		case 5: // only in dirty, live
			vAssume(dm != nil)
			dm[k] = newEntryValueMap(val)
		}
	}
	if len(rm) > 0 || amended {
		m.read.Store(readOnlyValueMap{m: rm, amended: amended})
	}
	m.dirty = dm
	m.misses = vInt("misses")
	vAssume(vC12Inv(m))
	vReach("invariant-state")
	ref := vC12Abs(m)
	c := vChoice("op", vC12KeyOps*3+(vC12Ops-vC12KeyOps))
	op, key := 0, ""
	if c < vC12KeyOps*3 {
		op, key = c/3, vC12Keys[c%3]
	} else {
		op = vC12KeyOps + (c - vC12KeyOps*3)
	}
	vC12Apply(m, ref, op, key, NewIntVal(99))
	vAssert(vC12Inv(m), "step.invariant-preserved")
	// abstract post-state equals the reference map after the same operation
	abs := vC12Abs(m)
	vAssert(len(abs) == len(ref), "step.abstract-state.size")
	for k, v := range ref {
		vAssert(abs[k] == v, "step.abstract-state.value")
	}
	vAssert(m.Length() == len(ref), "step.Length")
}

// ---------------------------------------------------------------------
// concurrent half: bounded interleavings of two threads

type vC12Op struct {
	thread, op int
	key        string
	val        *VMValue // argument
	got        *VMValue // result value (Load, LoadOrStore, LoadAndDelete)
	ok         bool     // result flag
	n          int      // Length result
	start, end int      // scheduler clock at invocation / response
}

func vC12Do(m *ValueMap, o *vC12Op) {
	o.start = vClock()
	switch o.op {
	case 0:
		m.Store(o.key, o.val)
	case 1:
		o.got, o.ok = m.Load(o.key)
	case 2:
		o.got, o.ok = m.LoadOrStore(o.key, o.val)
	case 3:
		o.got, o.ok = m.LoadAndDelete(o.key)
	case 4:
		m.Delete(o.key)
	case 5:
		m.Clear()
	case 6:
		o.n = m.Length()
	}
	o.end = vClock()
}

// vC12Seq applies o to the abstract map and says whether the recorded
// result is the one a sequential map gives.
func vC12Seq(ref map[string]*VMValue, o *vC12Op) bool {
	switch o.op {
	case 0:
		ref[o.key] = o.val
		return true
	case 1:
		w, ok := ref[o.key]
		return ok == o.ok && w == o.got
	case 2:
		w, ok := ref[o.key]
		if !ok {
			ref[o.key] = o.val
			w = o.val
		}
		return ok == o.ok && w == o.got
	case 3:
		w, ok := ref[o.key]
		delete(ref, o.key)
		return ok == o.ok && w == o.got
	case 4:
		delete(ref, o.key)
		return true
	case 5:
		for k := range ref {
			delete(ref, k)
		}
		return true
	case 6:
		return o.n == len(ref)
	}
	return false
}

// vC12Linearizable: is there a total order of ops that respects program order
// and real-time order (an operation that responded before another was invoked
// comes first), explains every recorded result sequentially from pre, and ends
// in the observed final contents?
func vC12Linearizable(pre map[string]*VMValue, ops []*vC12Op, final map[string]*VMValue) bool {
	n := len(ops)
	perm := make([]int, 0, n)
	used := make([]bool, n)
	var rec func() bool
	rec = func() bool {
		if len(perm) == n {
			ref := map[string]*VMValue{}
			for k, v := range pre {
				ref[k] = v
			}
			for _, i := range perm {
				if !vC12Seq(ref, ops[i]) {
					return false
				}
			}
			if len(ref) != len(final) {
				return false
			}
			for k, v := range ref {
				if final[k] != v {
					return false
				}
			}
			return true
		}
		for i := 0; i < n; i++ {
			if used[i] {
				continue
			}
			// every unused op that must precede i has to be placed already
			okPos := true
			for j := 0; j < n; j++ {
				if j == i || used[j] {
					continue
				}
				if ops[j].end < ops[i].start || (ops[j].thread == ops[i].thread && j < i) {
					okPos = false
				}
			}
			if !okPos {
				continue
			}
			used[i] = true
			perm = append(perm, i)
			if rec() {
				return true
			}
			perm = perm[:len(perm)-1]
			used[i] = false
		}
		return false
	}
	return rec()
}

const vC12ConcOps = 7 // Store Load LoadOrStore LoadAndDelete Delete | Clear Length

//vh:prop=C12 tiers=quick,thorough sigkeys=op budget_s=3000 maxsteps=40000000 quick:P.opsA=1 quick:P.preempt=1 thorough:P.opsA=2 thorough:P.preempt=2 bounds="two threads on one ValueMap started in any representation state over keys {a,b} that satisfies INV_map (as VH_C12_step, misses in 0..2): thread A performs opsA operations (1 quick, 2 thorough), thread B one, each from {Store, Load, LoadOrStore, LoadAndDelete, Delete} x {a,b} and {Clear, Length}; sequentially consistent interleavings with scheduling points at every mutex and atomic operation and at most preempt (1 quick, 2 thorough) pre-emptive context switches; afterwards (quiescent) Length, Load of every key and Range are read: the history is linearizable w.r.t. a Go map (program order, real-time order, every result, final contents) and INV_map holds again.  Range and Length with two concurrent writers are not snapshots by design (as sync.Map.Range) and are outside the claim; weak-memory behaviours are outside (the code is assumed data-race-free, which go test -race and the footprint of plain stores support)"
func VH_C12_conc() {
	m := &ValueMap{}
	rm := map[string]*entryValueMap{}
	var dm map[string]*entryValueMap
	if vChoice("dirtyNil", 2) == 0 {
		dm = map[string]*entryValueMap{}
	}
	amended := vChoice("amended", 2) == 1
	for i, k := range []string{"a", "b"} {
		val := NewIntVal(IntType(10 + i))
		switch vChoice("state_"+k, 6) {
		case 0:
		case 1:
			e := &entryValueMap{}
			rm[k] = e
			if dm != nil {
				dm[k] = e
			}
		case 2:
			rm[k] = &entryValueMap{p: expungedValueMap}
		case 3:
			e := newEntryValueMap(val)
			rm[k] = e
			if dm != nil {
				dm[k] = e
			}
		case 4:
			vAssume(dm != nil)
			dm[k] = &entryValueMap{}
		case 5:
			vAssume(dm != nil)
			dm[k] = newEntryValueMap(val)
		}
	}
	if len(rm) > 0 || amended {
		m.read.Store(readOnlyValueMap{m: rm, amended: amended})
	}
	m.dirty = dm
	m.misses = vChoice("misses", 3)
	vAssume(vC12Inv(m))
	pre := vC12Abs(m)

	mkOp := func(thread, idx int) *vC12Op {
		c := vChoice("op", 5*2+2)
		o := &vC12Op{thread: thread, val: NewIntVal(IntType(100 + 10*thread + idx))}
		if c < 10 {
			o.op, o.key = c/2, vC12Keys[c%2]
		} else {
			o.op = 5 + (c - 10)
		}
		return o
	}
	var ops []*vC12Op
	nA := vParam("opsA", 1)
	for i := 0; i < nA; i++ {
		ops = append(ops, mkOp(0, i))
	}
	ops = append(ops, mkOp(1, 0))
	// Length is claimed as a snapshot only against a single concurrent operation
	if nA > 1 {
		vAssume(ops[nA].op != 6)
	}
	vThreads2(vParam("preempt", 2), func() {
		for i := 0; i < nA; i++ {
			vC12Do(m, ops[i])
		}
	}, func() {
		vC12Do(m, ops[nA])
	})
	vReach("threads-joined")
	// quiescent observation
	final := map[string]*VMValue{}
	cnt := 0
	m.Range(func(k string, v *VMValue) bool {
		cnt++
		final[k] = v
		return true
	})
	vAssert(cnt == len(final), "quiescent.Range-visits-each-key-once")
	vAssert(m.Length() == len(final), "quiescent.Length-equals-Range")
	for _, k := range vC12Keys {
		got, ok := m.Load(k)
		w, wok := final[k]
		vAssert(ok == wok && got == w, "quiescent.Load-agrees-with-Range")
	}
	// the history as the scheduler produced it (compared byte for byte
	// between engine and native replay of the same schedule)
	hist := ""
	for _, o := range ops {
		g := int64(-1)
		if o.got != nil {
			g = int64(o.got.MustReadInt())
		}
		hist += fmt.Sprintf("t%d op%d %s ok=%v got=%d n=%d [%d,%d]; ", o.thread, o.op, o.key, o.ok, g, o.n, o.start, o.end)
	}
	for _, k := range vC12Keys {
		if v, ok := final[k]; ok {
			hist += fmt.Sprintf("%s=%d ", k, v.MustReadInt())
		}
	}
	vObserve("history", hist)
	vAssert(vC12Linearizable(pre, ops, final), "history-is-linearizable")
	vAssert(vC12Inv(m), "quiescent.invariant-holds")
}
