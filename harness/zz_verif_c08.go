//go:build verif

package dicescript

import "strings"

func init() {
	vHarnesses["VH_C08_src"] = VH_C08_src
	vHarnesses["VH_C08_corpus"] = VH_C08_corpus
}

// vC08State is the abstract machine state of the bytecode verifier: the
// evaluation-stack height and the bookkeeping the VM keeps beside it.
type vC08State struct {
	pc, height, blocks, fblocks, details, dice int
	lastPop                                    bool
	saved, fsaved                              [6]int
}

// vC08Effect returns (pops, pushes) of an instruction, and ok=false for an
// operand whose dynamic type is not what the VM asserts.
func vC08Effect(c ByteCode) (pops, pushes int, ok bool) {
	intOperand := func() (int, bool) {
		n, isInt := c.Value.(IntType)
		return int(n), isInt
	}
	switch c.T {
	case typePushIntNumber, typePushFloatNumber, typePushNull, typePushThis, typePushLast, typePushDefaultExpr:
		return 0, 1, true
	case typePushString:
		_, isStr := c.Value.(string)
		return 0, 1, isStr
	case typePushComputed, typePushFunction:
		v, isVal := c.Value.(*VMValue)
		return 0, 1, isVal && v != nil
	case typePushArray:
		n, isInt := intOperand()
		return n, 1, isInt && n >= 0
	case typePushDict:
		n, isInt := intOperand()
		return 2 * n, 1, isInt && n >= 0
	case typePushRange, typeLogicAnd:
		return 2, 1, true
	case typeInvoke:
		n, isInt := intOperand()
		return n + 1, 1, isInt && n >= 0
	case typeItemGet:
		return 2, 1, true
	case typeItemSet:
		return 3, 0, true
	case typeAttrSet:
		_, isStr := c.Value.(string)
		return 2, 0, isStr
	case typeAttrGet:
		_, isStr := c.Value.(string)
		return 1, 1, isStr
	case typeSliceGet:
		return 4, 1, true
	case typeSliceSet:
		return 5, 0, true
	case typeLoadFormatString:
		n, isInt := intOperand()
		return n, 1, isInt && n >= 0
	case typeLoadName, typeLoadNameRaw, typeLoadNameWithDetail:
		_, isStr := c.Value.(string)
		return 0, 1, isStr
	case typeStoreName, typeStoreNameGlobal, typeStoreNameLocal:
		_, isStr := c.Value.(string)
		return 0, 0, isStr // reads the top without popping (height >= 1 checked by caller)
	case typeJe, typeJne, typeJeDup:
		_, isInt := intOperand()
		return 1, 0, isInt
	case typeJmp:
		_, isInt := intOperand()
		return 0, 0, isInt
	case typePop:
		return 1, 0, true
	case typePopN:
		n, isInt := intOperand()
		return n, 0, isInt && n >= 0
	case typeAdd, typeSubtract, typeMultiply, typeDivide, typeModulus, typeExponentiation, typeNullCoalescing,
		typeCompLT, typeCompLE, typeCompEQ, typeCompNE, typeCompGE, typeCompGT, typeBitwiseAnd, typeBitwiseOr:
		return 2, 1, true
	case typePositive, typeNegation:
		return 1, 1, true
	case typeDiceSetTimes, typeDiceSetKeepLowNum, typeDiceSetKeepHighNum, typeDiceSetDropLowNum, typeDiceSetDropHighNum, typeDiceSetMin, typeDiceSetMax:
		return 1, 0, true
	case typeDice, typeDiceCocBonus, typeDiceCocPenalty, typeDiceWod, typeDiceDC:
		return 1, 1, true
	case typeCustomDice, typeDiceFate:
		return 0, 1, true
	case typeWodSetPoints, typeWodSetThreshold, typeWodSetThresholdQ, typeWodSetPool, typeDCSetPool, typeDCSetPoints:
		return 1, 0, true
	case typeDetailMark:
		_, isSpan := c.Value.(BufferSpan)
		return 0, 0, isSpan
	case typeStSetName, typeStModify, typeStX0:
		return 2, 0, true
	case typeStX1:
		return 3, 0, true
	}
	return 0, 0, true // init / nop / block markers / halt / return
}

// vC08Verify explores every control-flow path of code[0:n] abstractly.
func vC08Verify(code []ByteCode, n int, what string) {
	type key struct {
		s vC08State
	}
	seen := map[vC08State]bool{}
	joinBlocks := map[int][2]int{}
	work := []vC08State{{dice: -1}}
	steps := 0
	for len(work) > 0 {
		s := work[len(work)-1]
		work = work[:len(work)-1]
		for {
			steps++
			if steps > 20000 {
				return // bounded exploration of pathological programs
			}
			if s.pc == n {
				break // fell off the end: the VM stops
			}
			vAssert(s.pc >= 0 && s.pc < n, what+":jump-target-inside-the-program")
			if s.pc < 0 || s.pc >= n {
				break
			}
			if seen[s] {
				break
			}
			seen[s] = true
			if jb, ok := joinBlocks[s.pc]; ok {
				vAssert(jb[0] == s.blocks && jb[1] == s.fblocks, what+":same-open-blocks-at-every-arrival")
			} else {
				joinBlocks[s.pc] = [2]int{s.blocks, s.fblocks}
			}
			c := code[s.pc]
			pops, pushes, okOperand := vC08Effect(c)
			opName := "other"
			switch c.T {
			case typeJe:
				opName = "je"
			case typeJne:
				opName = "jne"
			case typeJeDup:
				opName = "je.dup"
			case typeJmp:
				opName = "jmp"
			}
			vAssert(okOperand, what+":operand-has-the-type-the-VM-asserts (unpatched jump / missing operand):"+opName)
			if !okOperand {
				break
			}
			vAssert(s.height >= pops, what+":never-pops-an-empty-stack")
			if s.height < pops {
				break
			}
			switch c.T {
			case typeStoreName:
				vAssert(s.height >= 1, what+":store-needs-a-value")
			case typePushLast:
				vAssert(s.lastPop, what+":push.last-after-a-pop")
			case typeLoadNameWithDetail, typePushDefaultExpr, typeDice, typeDiceFate, typeDiceCocBonus, typeDiceCocPenalty, typeDiceWod, typeDiceDC:
				vAssert(s.details >= 1, what+":annotation-slot-set-up-before-use")
			}
			switch c.T {
			case typeDiceSetTimes, typeDiceSetKeepLowNum, typeDiceSetKeepHighNum, typeDiceSetDropLowNum, typeDiceSetDropHighNum, typeDiceSetMin, typeDiceSetMax, typeDice:
				vAssert(s.dice >= 0, what+":dice-state-initialised-before-use")
			}
			if pops > 0 {
				s.lastPop = true
			}
			s.height += pushes - pops
			if s.height > 40 {
				s.height = 40
			}
			next := s.pc + 1
			switch c.T {
			case typeHalt, typeReturn:
				next = -1
			case typeDetailMark:
				if s.details < 2 {
					s.details++
				}
			case typeDiceInit:
				if s.dice < 3 {
					s.dice++
				}
			case typeDice:
				s.dice--
			case typeBlockPush:
				if s.blocks < len(s.saved) {
					s.saved[s.blocks] = s.height
				}
				s.blocks++
			case typeBlockPop:
				vAssert(s.blocks >= 1, what+":block.pop-has-a-matching-push")
				if s.blocks < 1 {
					next = -1
					break
				}
				s.blocks--
				if s.blocks < len(s.saved) {
					s.height = s.saved[s.blocks] + 1
					s.saved[s.blocks] = 0
				}
			case typeFStringBlockPush:
				if s.fblocks < len(s.fsaved) {
					s.fsaved[s.fblocks] = s.height
				}
				s.fblocks++
			case typeFStringBlockPop:
				vAssert(s.fblocks >= 1, what+":fstr.block.pop-has-a-matching-push")
				if s.fblocks < 1 {
					next = -1
					break
				}
				s.fblocks--
				if s.fblocks < len(s.fsaved) {
					s.height = s.fsaved[s.fblocks] + 1
					s.fsaved[s.fblocks] = 0
				}
			case typeJmp:
				next = s.pc + 1 + int(c.Value.(IntType))
			case typeJe, typeJne, typeJeDup:
				t := s
				t.pc = s.pc + 1 + int(c.Value.(IntType))
				if c.T == typeJeDup {
					t.height++
				}
				work = append(work, t)
			}
			if next < 0 {
				break
			}
			s.pc = next
		}
	}
}

// vC08LoopJumps recovers the loops of one code body from its backward jumps
// (a loop's closing jump is the last jump back to its head S; E is its
// index) and counts the jumps that leave a loop for the instruction right
// after its end (break) and the other jumps back to a loop's head (continue).
func vC08LoopJumps(code []ByteCode, n int) (breaks, continues int) {
	target := func(pc int) (int, bool) {
		if code[pc].T != typeJmp {
			return 0, false
		}
		off, ok := code[pc].Value.(IntType)
		if !ok {
			return 0, false
		}
		return pc + 1 + int(off), true
	}
	closing := map[int]int{} // head -> index of the closing jump
	for pc := 0; pc < n && pc < len(code); pc++ {
		if t, ok := target(pc); ok && t <= pc {
			closing[t] = pc
		}
	}
	for pc := 0; pc < n && pc < len(code); pc++ {
		t, ok := target(pc)
		if !ok {
			continue
		}
		if t <= pc {
			if closing[t] != pc {
				continues++
			}
			continue
		}
		// innermost loop around pc
		bestS, bestE := -1, -1
		for sHead, e := range closing {
			if sHead <= pc && pc < e && (bestS < 0 || sHead > bestS) {
				bestS, bestE = sHead, e
			}
		}
		if bestS >= 0 && t == bestE+1 {
			breaks++
		}
	}
	return
}

// vC08CountLoopJumps sums vC08LoopJumps over the program and its nested bodies.
func vC08CountLoopJumps(vm *Context) (breaks, continues int) {
	breaks, continues = vC08LoopJumps(vm.code, vm.codeIndex)
	vWalkCode(vm.code, vm.codeIndex, 0, func(c ByteCode, pc int, n int) {
		var code []ByteCode
		var cn int
		switch c.T {
		case typePushFunction:
			if v, ok := c.Value.(*VMValue); ok && v != nil {
				if fd, ok := v.ReadFunctionData(); ok && fd.code != nil {
					code, cn = fd.code, fd.codeIndex
				}
			}
		case typePushComputed:
			if v, ok := c.Value.(*VMValue); ok && v != nil {
				if cd, ok := v.ReadComputed(); ok && cd.code != nil {
					code, cn = cd.code, cd.codeIndex
				}
			}
		}
		if code != nil {
			b, k := vC08LoopJumps(code, cn)
			breaks += b
			continues += k
		}
	})
	return
}

func vC08VerifyAll(vm *Context) {
	vC08Verify(vm.code, vm.codeIndex, "main")
	vWalkCode(vm.code, vm.codeIndex, 0, func(c ByteCode, pc int, n int) {
		switch c.T {
		case typePushFunction:
			if v, ok := c.Value.(*VMValue); ok && v != nil {
				if fd, ok := v.ReadFunctionData(); ok && fd.code != nil {
					vC08Verify(fd.code, fd.codeIndex, "function-body")
				}
			}
		case typePushComputed:
			if v, ok := c.Value.(*VMValue); ok && v != nil {
				if cd, ok := v.ReadComputed(); ok && cd.code != nil {
					vC08Verify(cd.code, cd.codeIndex, "computed-body")
				}
			}
		}
	})
}

//vh:prop=C08 tiers=quick,thorough overrides=formatFriendlyError unwind=400 unwind_ok=1 maxsteps=60000000 budget_s=2400 quick:P.n=3 thorough:P.n=4 bounds="every accepted input of exactly n bytes (3 quick, 4 thorough) over {1 x ( ) [ ] { } | & ? : , ; ' = . space newline d} (symbolic bytes through the real parser); the emitted bytecode and every nested body is explored along all control-flow paths by an abstract stack-height machine: operand types, jump targets, stack underflow, block balance at joins, annotation / dice-state set-up"
func VH_C08_src() {
	b := vSymSource("b", vParam("n", 3), "1x()[]{}|&?:,;'=. \nd")
	vm := vNewVM()
	if err := vm.Parse(string(b)); err != nil {
		return
	}
	vReach("parsed")
	vC08VerifyAll(vm)
}

var vC08Corpus = []string{
	"1 || 2", "1 && 2 || 3", "x = 1 || 2", "1 ? 2 : 3", "1 ? 2, 0 ? 3", "if 1 { 2 } else { 3 }", "if 1 { 2 } else if 0 { 3 } else { 4 }",
	"i = 0; while i < 3 { i = i + 1; if i == 2 { continue }; if i == 5 { break } }", "while 1 { break }", "func fn1(n) { if n { return 1 }; return 2 }; fn1(1)",
	"&v1 = 1 + 2d6; v1", "`a{1}b{% x = 2 %}c`", "`{% if 1 { 2 } %}`", "[1,2,3][0]", "[1,2][0:1]", "v1 = [1,2]; v1[0] = 3; v1[0:1] = [4]", "{'k': 1}.k", "dd = {}; dd.k = dd['j'] = []",
	"2d6kh1 + d20优势", "(2d6)d(3d4)", "b2 + p", "3a8k6m9", "2c8m10", "f", "[d6, 2]kh", "[1,2].kh(1)", "x.y.z", "x[1][2]", "fn1(1)(2)", "1 ?? 2 ?? 3",
	"i = 0; while i < 2 { j = 0; while j < 2 { j = j + 1; if j { continue } }; i = i + 1 }", "if 1 { if 2 { if 3 { 4 } } }", "-1 + +2 ** 3", "x = y = 3", "this.q = 1",
	"i = 0; while i < 2 { i = i + 1; j = 0; while j < 2 { j = j + 1; break } }; i",
	"i = 0; while i < 2 { i = i + 1; j = 0; while j < 2 { j = j + 1; continue }; 7 }; i",
	"i = 0; while i < 2 { i = i + 1; j = 0; while j < 2 { j = j + 1; k = 0; while k < 2 { k = k + 1; break }; continue } }; i",
	"func fn1() { i = 0; while i < 2 { i = i + 1; j = 0; while j < 2 { j = j + 1; break } } }; fn1()",
	// break / continue of the outer loop written before, between and after inner loops
	// (unconditional, so that the recorded block leak of 'if .. { break }' stays out of it)
	"i = 0; while i < 5 { i = i + 1; break; j = 0; while j < 2 { j = j + 1 } }; i",
	"i = 0; while i < 5 { i = i + 1; j = 0; while j < 2 { j = j + 1 }; continue; k = 0; while k < 2 { k = k + 1 }; break }; i",
	"i = 0; while i < 5 { i = i + 1; continue; j = 0; while j < 2 { j = j + 1; continue; break }; k = 0; while k < 2 { k = k + 1; break }; break }; i",
	"&v1 = `{% i = 0; while i < 3 { i = i + 1; break; j = 0; while j < 1 { j = j + 1 } } %}`; v1",
	"func fn1() { i = 0; while i < 4 { i = i + 1; continue; j = 0; while j < 2 { j = j + 1; break }; break }; return i }; fn1()",
	// break / continue of a loop followed, in the same body, by constructs that compile into a code buffer of their own
	"i = 0; while i < 9 { i = i + 1; break; func fn1() { 1 } }; i",
	"i = 0; while i < 9 { i = i + 1; continue; &v1 = i + 1 }; i",
	"i = 0; while i < 9 { i = i + 1; break; func fn1() { j = 0; while j < 2 { j = j + 1; break } }; &v1 = 2; continue }; i",
	"i = 0; while i < 9 { i = i + 1; break; ^st&力量=i }; i",
	// bodies that do not fit the 8192-instruction buffer (rejected - or, if accepted, verified like any other)
	"func fn1() { if 1 { " + strings.Repeat("x+", 2790) + "1 } }; fn1()",
	"&v1 = 1 ? (" + strings.Repeat("x+", 2790) + "1) : 2; v1",
}

//vh:prop=C08 tiers=quick,thorough sigkeys=prog maxsteps=600000000 budget_s=900 bounds="50 programs composing every control construct (short-circuit, ternary, multi-arm, if/else-if, nested loops with break/continue, functions with early return, computed values, templates with statement holes, chained indexing/attributes, every dice family), verified as in VH_C08_src; in addition the loops are recovered from the backward jumps and the number of jumps to the instruction after a loop's end / back to a loop's head must equal the number of break / continue statements written (a placeholder left unpatched is a jump to the next instruction)"
func VH_C08_corpus() {
	k := vChoice("prog", len(vC08Corpus))
	vm := vNewVM()
	if err := vm.Parse(vC08Corpus[k]); err != nil {
		vNote("parse-error", err.Error())
		return
	}
	vReach("parsed")
	// every break is a jump to the instruction after its own loop, every
	// continue a jump to its own loop's head: none keeps the placeholder offset
	b, c := vC08CountLoopJumps(vm)
	vAssert(b == strings.Count(vC08Corpus[k], "break"), "every-break-jumps-past-the-end-of-its-own-loop")
	vAssert(c == strings.Count(vC08Corpus[k], "continue"), "every-continue-jumps-to-the-head-of-its-own-loop")
	vC08VerifyAll(vm)
}
