//go:build verif

package dicescript

import (
	"sort"
	"strings"
)

func init() {
	vHarnesses["VH_C03_tail"] = VH_C03_tail
	vHarnesses["VH_C03_cut"] = VH_C03_cut
	vHarnesses["VH_C03_deeptail"] = VH_C03_deeptail
}

// one valid program per statement / expression form
var vC03Progs = []string{
	"5", "1+2", "x=3", "x=3;x", "[1,2]", "{'k':1}", "'s'", "`t{1}`", "2d1", "d1k1", "(1)", "1?2:3", "-1", "1 || 2", "1 && 2",
	"if 1 {2}", "i=0;while i<1 {i=i+1}", "func fn1(n){return n};fn1(1)", "&v1=1+1;v1", "[1,2][0]", "[1,2].sum()", "{'k':1}.k", "[1..3]",
	"1.5", "null", "x=1\ny=2", "[1,2]kh", "f", "b1", "2a10", "2c9", "1 ?? 2", "2**3", "[1,2,3][0:2]", "this.q = 1", "1,",
}

func vAttrsString(vm *Context) string {
	var keys []string
	vals := map[string]string{}
	vm.Attrs.Range(func(k string, v *VMValue) bool {
		keys = append(keys, k)
		vals[k] = v.ToRepr()
		return true
	})
	sort.Strings(keys)
	out := ""
	for _, k := range keys {
		out += k + "=" + vals[k] + ";"
	}
	return out
}

//vh:prop=C03 tiers=quick,thorough sigkeys=prog overrides=formatFriendlyError unwind=400 unwind_ok=1 budget_s=2400 quick:P.n=2 quick:P.restricted=1 thorough:P.n=2 bounds="inputs <valid program><tail> for 36 programs (one per statement/expression form) and every tail of exactly 2 bytes (quick: over 34 representative bytes - digits, letters, every bracket and quote, operators, separators, space, newline, 0x1E; thorough: over all of ASCII); dice in min mode; on every accepting path Matched+RestInput is the input, Matched has no trailing whitespace, and a fresh VM evaluating Matched alone gives the same value text, process text and variables and consumes it entirely"
func VH_C03_tail() {
	k := vParam("prog", -1)
	if k < 0 {
		k = vChoice("prog", len(vC03Progs))
	}
	alphabet := ""
	if vParam("restricted", 0) == 1 {
		alphabet = "09ad{}[]()'\"`|&?:,;.=+-*/ \n\x1e_~#"
	}
	tail := vSymSource("t", vParam("n", 2), alphabet)
	vC03Check(vC03Progs[k] + string(tail))
}

var vC03DeepProgs = []string{"5", "x=3", "2d1", "[1,2]", "1?2:3", "fn1(1)"}

//vh:prop=C03 tiers=quick,thorough sigkeys=prog overrides=formatFriendlyError unwind=400 unwind_ok=1 budget_s=2400 quick:P.n=4 thorough:P.n=5 bounds="deeper tails: 6 programs followed by every tail of exactly n bytes (4 quick, 5 thorough) over the operator/bracket alphabet {+ [ 1 , x = ( { '} - tails that begin an operand, literal, call or assignment and break off; same assertions as VH_C03_tail"
func VH_C03_deeptail() {
	k := vParam("prog", -1)
	if k < 0 {
		k = vChoice("prog", len(vC03DeepProgs))
	}
	tail := vSymSource("t", vParam("n", 4), "+[1,x=({'")
	vC03Check(vC03DeepProgs[k] + string(tail))
}

func vC03Check(input string) {
	vm := vNewVM()
	vm.Config.DiceMinMode = true
	err := vm.Run(input)
	vReach("ran")
	if err != nil {
		return
	}
	vAssert(vm.Matched+vm.RestInput == input, "Matched+RestInput-is-the-input")
	vAssert(strings.TrimRight(vm.Matched, " \t\r\n") == vm.Matched || len(vm.Matched) == 0, "Matched-has-no-trailing-space")
	// class of the returned text: its first non-space byte (identifies which
	// abandoned construct a finding belongs to)
	class := "/rest-empty"
	rest := vm.RestInput
	ri := 0
	for ri < len(rest) && (rest[ri] == ' ' || rest[ri] == '\t' || rest[ri] == '\n' || rest[ri] == '\r') {
		ri++
	}
	if ri < len(rest) {
		c := rest[ri]
		switch {
		case c >= '0' && c <= '9':
			class = "/rest-starts-with-digit"
		case c >= 'a' && c <= 'z' || c >= 'A' && c <= 'Z' || c == '_':
			class = "/rest-starts-with-letter"
		case c > 0x20 && c < 0x7f:
			class = "/rest-starts-with-" + string(rune(vConcretizeInt64(int64(c), 128)))
		default:
			class = "/rest-starts-with-control-byte"
		}
		// the first construct the returned text opens (bracket or quote)
		opens := "none"
		for j := ri; j < len(rest) && opens == "none"; j++ {
			switch rest[j] {
			case '[':
				opens = "["
			case '{':
				opens = "{"
			case '(':
				opens = "("
			case '\'':
				opens = "'"
			case '"':
				opens = "dquote"
			case '`':
				opens = "backtick"
			case 0x1e:
				opens = "0x1e"
			}
		}
		class += "/opens-" + opens
	}
	// and what the consumed text ends with (a literal, a name, a bracket ...)
	after := "nothing"
	if n := len(vm.Matched); n > 0 {
		switch c := vm.Matched[n-1]; {
		case c >= '0' && c <= '9':
			after = "digit"
		case c >= 'a' && c <= 'z' || c >= 'A' && c <= 'Z' || c == '_' || c >= 0x80:
			after = "name"
		case c == ']' || c == ')' || c == '}' || c == '\'' || c == ';':
			after = string(rune(vConcretizeInt64(int64(c), 128)))
		case c == '"':
			after = "dquote"
		case c == '`':
			after = "backtick"
		default:
			after = "other"
		}
	}
	class += "/after-" + after
	vNote("class", class)
	ret1, det1, attrs1 := vm.Ret.ToRepr(), vm.GetDetailText(), vAttrsString(vm)
	vm2 := vNewVM()
	vm2.Config.DiceMinMode = true
	err2 := vm2.Run(vm.Matched)
	vAssert(err2 == nil, "Matched-alone-evaluates"+class)
	if err2 != nil {
		return
	}
	vAssert(vm2.RestInput == "", "Matched-alone-is-consumed-entirely"+class)
	vAssert(vm2.Ret.ToRepr() == ret1, "value-is-that-of-Matched-alone"+class)
	vAssert(vm2.GetDetailText() == det1, "process-text-is-that-of-Matched-alone")
	vAssert(vAttrsString(vm2) == attrs1, "variables-are-those-of-Matched-alone"+class)
}

// The cut itself, for every offset: tier-I unit harness on RunAfterParsed's
// tail arithmetic through a real parse of "1" followed by symbolic spaces.
//
//vh:prop=C03 tiers=quick,thorough overrides=formatFriendlyError unwind=400 unwind_ok=1 quick:P.n=3 thorough:P.n=4 bounds="inputs '7' + n bytes (3 quick, 4 thorough) over {space tab newline ; 7 x}: Matched+RestInput == input and Matched ends with a non-space byte"
func VH_C03_cut() {
	tail := vSymSource("t", vParam("n", 3), " \t\n;7x")
	input := "7" + string(tail)
	vm := vNewVM()
	if err := vm.Run(input); err != nil {
		return
	}
	vReach("ran")
	vAssert(vm.Matched+vm.RestInput == input, "Matched+RestInput-is-the-input")
	m := vm.Matched
	vAssert(len(m) > 0, "something-matched")
	last := m[len(m)-1]
	vAssert(last != ' ' && last != '\t' && last != '\n' && last != '\r', "Matched-ends-with-non-space")
}

// broken-off statements after a valid program: statement rules emit code
// while they are parsed, and only the recorded error keeps a run whose
// statement breaks off from executing that code
var vC03StmtHeads = []string{"5", "x = 5; x", "2d6kh1", "[1, 2]"}
var vC03StmtSeps = []string{"\n", "; ", ";\n", " ;"}
var vC03StmtTails = []string{
	"if 1 { a = 2", "if 1 { a = 2 } else { a = 3", "while 1 { a = 2", "func fn1() { a = 2", "if 1 { a = 2 } else if", "while a < 3 { a = a + 1; break",
	"x(3, ", "y = x(3, [4", "x.len(1,", "x(1)(2, ", "x(1, 2", "x[0](3, ",
	"if", "while", "func", "func fn1(", "if 1 { return 2", "&c = ", "a = ", "a = 2; if 1 { b = 3", "`{% a = 2 ", "^st力量", "if 1 {", "break", "return",
}

func init() {
	vHarnesses["VH_C03_stmt"] = VH_C03_stmt
}

//vh:prop=C03 tiers=quick,thorough sigkeys=head,sep,tail overrides=formatFriendlyError budget_s=900 bounds="4 valid programs x 4 statement separators x 25 broken-off statements and calls (a call cut after a complete first argument, if / else / else-if / while / func / return / break / computed and plain assignment / template block / st command cut at various points): the run either fails as a whole or its value, process text and variables are those of Matched evaluated alone (checked as in VH_C03_tail)"
func VH_C03_stmt() {
	h := vC03StmtHeads[vChoice("head", len(vC03StmtHeads))]
	sp := vC03StmtSeps[vChoice("sep", len(vC03StmtSeps))]
	t := vC03StmtTails[vChoice("tail", len(vC03StmtTails))]
	vC03Check(h + sp + t)
}

// line-break spellings inside and after the program: the text handed back
// is the caller's text, byte for byte
var vC03BreakHeads = []string{"2d1", "x = 1; x", "'a\r\nb'", "`t\r\n{1}`", "1 +\r\n 2", "[1,\r\n 2]", "x = 1\r\ny = 2\r\nx + y", "// note\r\n5"}
var vC03BreakTails = []string{"", "\r\n", " reason text\r\nsecond line", "\r", "\n\r", "\r\n\r\n", "\t\r\n x", " \r \n", "\r\n)"}

func init() {
	vHarnesses["VH_C03_breaks"] = VH_C03_breaks
}

//vh:prop=C03 tiers=quick,thorough sigkeys=head,tail overrides=formatFriendlyError budget_s=600 bounds="8 programs containing CR LF / CR / LF in strings, templates, between operands, between statements and after comments x 9 tails made of CR, LF, blanks and further text: Matched followed by RestInput is exactly the input, and the result is that of Matched alone (as in VH_C03_tail)"
func VH_C03_breaks() {
	h := vC03BreakHeads[vChoice("head", len(vC03BreakHeads))]
	t := vC03BreakTails[vChoice("tail", len(vC03BreakTails))]
	vC03Check(h + t)
}
