//go:build verif

package dicescript

import "strconv"

func init() {
	vHarnesses["VH_C13_lit"] = VH_C13_lit
	vHarnesses["VH_C13_tpl"] = VH_C13_tpl
	vHarnesses["VH_C13_nest"] = VH_C13_nest
	vHarnesses["VH_C13_holes"] = VH_C13_holes
}

var vC13Delims = []byte{'\'', '"', '`', 0x1e}

// vC13Escape writes text with the documented escapes for quote style q:
// backslash doubled, the delimiter escaped in the two plain styles, '{'
// escaped in the two template styles; control characters raw or (variant 1)
// in their \n \r \t \f spelling.
func vC13Escape(t []byte, q byte, variant int) []byte {
	var out []byte
	tpl := q == '`' || q == 0x1e
	for _, c := range t {
		switch {
		case c == '\\':
			out = append(out, '\\', '\\')
		case c == q && !tpl:
			out = append(out, '\\', c)
		case c == '{' && tpl:
			out = append(out, '\\', '{')
		case c == '}' && tpl && variant == 1:
			out = append(out, '\\', '}')
		case c == '\n' && variant == 1:
			out = append(out, '\\', 'n')
		case c == '\r' && variant == 1:
			out = append(out, '\\', 'r')
		case c == '\t' && variant == 1:
			out = append(out, '\\', 't')
		case c == '\f' && variant == 1:
			out = append(out, '\\', 'f')
		default:
			out = append(out, c)
		}
	}
	return out
}

// vC13Text: n positions, each a symbolic ASCII byte from the alphabet or one
// of two multi-byte runes (by case split).
func vC13Text(label string, n int, alphabet string) []byte {
	var t []byte
	for i := 0; i < n; i++ {
		switch vChoice(label+"_cls", 3) {
		case 0:
			t = append(t, vSymSource(label, 1, alphabet)...)
		case 1:
			t = append(t, "é"...)
		case 2:
			t = append(t, "汉"...)
		}
	}
	return t
}

//vh:prop=C13 tiers=quick,thorough overrides=formatFriendlyError unwind=400 unwind_ok=1 budget_s=2400 quick:P.n=3 thorough:P.n=4 bounds="texts of n code points (3 quick, 4 thorough), each a symbolic byte over {quote, double quote, backtick, 0x1E, backslash, braces, percent, newline, CR, tab, FF, n, a, space} or one of two multi-byte runes, in the four quote styles, with control characters raw or escaped; the delimiter itself is excluded in the two template styles (it has no escape); the program q esc(t) q must evaluate to the string t"
func VH_C13_lit() {
	n := vParam("n", 2)
	qi := vChoice("style", 4)
	q := vC13Delims[qi]
	t := vC13Text("t", n, "'\"`\x1e\\{}%\n\r\t\fna ")
	if q == '`' || q == 0x1e {
		for _, c := range t {
			vAssume(c != q)
		}
	}
	variant := vChoice("escaped-controls", 2)
	src := append([]byte{q}, vC13Escape(t, q, variant)...)
	src = append(src, q)
	vm := vNewVM()
	err := vm.Run(string(src))
	vReach("ran")
	vAssert(err == nil, "literal-is-accepted")
	if err != nil {
		return
	}
	vAssert(vm.RestInput == "", "literal-is-consumed-entirely")
	vAssert(vm.Ret.TypeId == VMTypeString, "literal-evaluates-to-a-string")
	if s, ok := vm.Ret.ReadString(); ok {
		vAssert(s == string(t), "literal-evaluates-to-exactly-the-text")
	}
}

var vC13Holes = []struct{ src, want, store, stored string }{
	{"1+1", "2", "", ""},
	{"x = 5", "5", "x", "5"},
	{"'q'", "q", "", ""},
	{"if 1 { 7 }", "", "", ""}, // an if-block contributes no text (pinned by TestFStringV1IfCompatible)
	{"y = 2; y * 3", "6", "y", "2"},
	{"`in{1}`", "in1", "", ""},
	{"if 0 { 7 }", "", "", ""},
	{"[1,2]", "[1, 2]", "", ""},
}

//vh:prop=C13 tiers=quick,thorough sigkeys=h1,h2 overrides=formatFriendlyError unwind=400 unwind_ok=1 budget_s=2400 quick:P.n=1 thorough:P.n=1 thorough:P.allpairs=1 bounds="templates ` s0 {e1} s1 {% e2 %} s2 ` in both template styles with literal segments of one code point each (alphabet as VH_C13_lit, escaped) and e1, e2 from 8 holes (quick: 8 pairs; thorough: all 64 pairs) (expression, assignment, string, if-block with and without value, statement list, nested template, array): value is the concatenation in order, assignments happen, one value is left on the stack"
func VH_C13_tpl() {
	n := vParam("n", 1)
	q := vC13Delims[2+vChoice("style", 2)]
	h1 := vChoice("h1", len(vC13Holes))
	h2 := (h1 + 3) % len(vC13Holes)
	if vParam("allpairs", 0) == 1 {
		h2 = vChoice("h2", len(vC13Holes))
	}
	var segs [3][]byte
	for i := range segs {
		segs[i] = vC13Text("s", n, "'\"\\{}%\nna ")
	}
	var src []byte
	src = append(src, q)
	src = append(src, vC13Escape(segs[0], q, 0)...)
	src = append(src, "{"+vC13Holes[h1].src+"}"...)
	src = append(src, vC13Escape(segs[1], q, 0)...)
	src = append(src, "{% "+vC13Holes[h2].src+" %}"...)
	src = append(src, vC13Escape(segs[2], q, 0)...)
	src = append(src, q)
	vm := vNewVM()
	err := vm.Run(string(src))
	vReach("ran")
	vAssert(err == nil, "template-is-accepted")
	if err != nil {
		return
	}
	want := string(segs[0]) + vC13Holes[h1].want + string(segs[1]) + vC13Holes[h2].want + string(segs[2])
	s, ok := vm.Ret.ReadString()
	vAssert(ok, "template-evaluates-to-a-string")
	vAssert(s == want, "template-is-the-concatenation-in-order")
	vAssert(vm.top == 1, "exactly-one-value-left-on-the-stack")
	for _, h := range []int{h1, h2} {
		if vC13Holes[h].store != "" {
			v, ok := vm.Attrs.Load(vC13Holes[h].store)
			vAssert(ok && v.ToString() == vC13Holes[h].stored, "embedded-assignment-took-effect")
		}
	}
}

//vh:prop=C13 tiers=quick,thorough sigkeys=depth budget_s=600 bounds="nesting depth 1..21 of template holes (concrete): accepted depths evaluate to the inner value wrapped by the literal segments; a rejected depth is an error, never a wrong value; the same with a statement block assigning a variable at every level: text, every variable and no other"
func VH_C13_nest() {
	d := 1 + vChoice("depth", 21)
	src, want := "7", "7"
	for i := 0; i < d; i++ {
		src = "`a{" + src + "}b`"
		want = "a" + want + "b"
	}
	vm := vNewVM()
	err := vm.Run(src)
	if err != nil {
		return
	}
	s, ok := vm.Ret.ReadString()
	vAssert(ok && s == want, "nested-template-value")
	// the same nesting with a statement block that assigns a variable at every
	// level: "embedded code may assign variables at any accepted depth"
	src2, want2 := "`{% w0 = 100 %}`", "100"
	for i := 1; i < d; i++ {
		n := strconv.Itoa(i)
		src2 = "`<{% w" + n + " = " + n + " %}{" + src2 + "}>`"
		want2 = "<" + n + want2 + ">"
	}
	vm2 := vNewVM()
	if err := vm2.Run(src2); err != nil {
		return
	}
	s2, ok := vm2.Ret.ReadString()
	vAssert(ok && s2 == want2, "nested-template-with-assignments-value")
	for i := 0; i < d; i++ {
		v, ok := vm2.Attrs.Load("w" + strconv.Itoa(i))
		wantV := int64(i)
		if i == 0 {
			wantV = 100
		}
		vAssert(ok && v != nil, "variable-assigned-at-every-accepted-depth")
		if ok && v != nil {
			iv, isInt := v.ReadInt()
			vAssert(isInt && int64(iv) == wantV, "variable-assigned-at-every-accepted-depth")
		}
	}
	vAssert(vm2.Attrs.Length() == d, "no-other-variable-appears")
}

var vC13VarHoles = []string{"arr", "dct", "[arr, 3]", "arr[0]", "sv", "iv", "arr + [iv]", "{'k': arr}", "f1", "f2", "f3 * 2", "[f1, f2]", "null", "fn1"}

func vC13VarVM(x, y int64) *Context {
	vm := vNewVM()
	vm.Attrs.Store("arr", NewArrayVal(NewIntVal(IntType(x)), NewIntVal(2)))
	m := &ValueMap{}
	m.Store("u", NewIntVal(IntType(y)))
	vm.Attrs.Store("dct", NewDictVal(m).V())
	vm.Attrs.Store("sv", NewStrVal("s t"))
	vm.Attrs.Store("iv", NewIntVal(IntType(y)))
	vm.Attrs.Store("f1", NewFloatVal(0.00001))
	vm.Attrs.Store("f2", NewFloatVal(1e21))
	vm.Attrs.Store("f3", NewFloatVal(-1.25))
	vm.Attrs.Store("fn1", NewFunctionValRaw(&FunctionData{Expr: "return 1", Name: "fn1"}))
	return vm
}

//vh:prop=C13 tiers=quick,thorough sigkeys=h1,h2,h3 overrides=formatFriendlyError budget_s=900 quick:P.three=0 thorough:P.three=1 bounds="templates < {e1} | {e2} > (thorough: a third hole {% e3 %}) in both template styles, holes from 14 expressions over variables holding an array, a dict, a string, an integer, floats of very small and very large magnitude, null and a function (integers are 64-bit symbols), all pairs (thorough: all triples) including the same container shown twice: the value is the concatenation of the segments and of each hole's string form as obtained by evaluating the hole alone"
func VH_C13_holes() {
	q := string(vC13Delims[2+vChoice("style", 2)])
	x, y := vInt64("x"), vInt64("y")
	hs := []int{vChoice("h1", len(vC13VarHoles)), vChoice("h2", len(vC13VarHoles))}
	if vParam("three", 0) == 1 {
		hs = append(hs, vChoice("h3", len(vC13VarHoles)))
	}
	src, want := q+"<", "<"
	for i, h := range hs {
		e := vC13VarHoles[h]
		alone := vC13VarVM(x, y)
		vAssume(alone.Run(e) == nil)
		if i == 2 {
			src += "{% " + e + " %}"
		} else {
			src += "{" + e + "}"
		}
		want += alone.Ret.ToString()
		if i+1 < len(hs) {
			src += "|"
			want += "|"
		}
	}
	src += ">" + q
	want += ">"
	vm := vC13VarVM(x, y)
	err := vm.Run(src)
	vReach("ran")
	vAssert(err == nil, "template-is-accepted")
	if err != nil {
		return
	}
	s, ok := vm.Ret.ReadString()
	vAssert(ok, "template-evaluates-to-a-string")
	vAssert(s == want, "template-is-the-concatenation-of-segments-and-hole-string-forms")
}

// code points at the edges of the UTF-8 encoding and a few that text
// handling tends to special-case
var vC13Runes = []rune{0xFFFD, 0xFFFC, 0xFEFF, 0x2028, 0x2029, 0x85, 0xA0, 0x200B, 0x10FFFF, 0xE000, 0xD7FF, 0x80, 0x7FF, 0x800, 0xFFFF, 0x10000, 0x1F3B2, 0x7F, 0x1, 0x301}

func init() {
	vHarnesses["VH_C13_runes"] = VH_C13_runes
}

//vh:prop=C13 tiers=quick,thorough sigkeys=rune,style,form budget_s=600 bounds="20 code points at the edges of UTF-8 (U+0080, U+07FF, U+0800, U+D7FF, U+E000, U+FFFD, U+FFFF, U+10000, U+10FFFF) or commonly special-cased (BOM, line / paragraph separators, NEL, NBSP, zero-width space, replacement and object-replacement characters, a combining mark, DEL, U+0001, an emoji) inside a literal in each of the four quote styles, alone, doubled and next to a template hole with an assignment: the value is exactly the text, the assignment takes effect"
func VH_C13_runes() {
	r := vC13Runes[vChoice("rune", len(vC13Runes))]
	q := string(vC13Delims[vChoice("style", 4)])
	text := "a" + string(r) + "b"
	src := q + text + q
	want := text
	form := vChoice("form", 3)
	isTpl := q == "`" || q == "\x1e"
	switch form {
	case 1:
		text = string(r) + string(r)
		src, want = q+text+q, text
	case 2:
		if !isTpl {
			return
		}
		src = q + string(r) + "{w1 = 7}" + string(r) + "{% w2 = 8 %}" + q
		want = string(r) + "7" + string(r) + "8"
	}
	vm := vNewVM()
	err := vm.Run(src)
	vReach("ran")
	vAssert(err == nil, "literal-is-accepted")
	if err != nil {
		return
	}
	vAssert(vm.RestInput == "", "literal-is-consumed-entirely")
	s, ok := vm.Ret.ReadString()
	vAssert(ok && s == want, "literal-evaluates-to-exactly-the-text")
	if form == 2 {
		v1, ok1 := vm.Attrs.Load("w1")
		v2, ok2 := vm.Attrs.Load("w2")
		vAssert(ok1 && ok2 && v1 != nil && v2 != nil && v1.ToString() == "7" && v2.ToString() == "8", "embedded-assignments-take-effect")
	}
}
