//go:build verif

package dicescript

import "golang.org/x/exp/rand"

func init() {
	vHarnesses["VH_C04_vm"] = VH_C04_vm
}

// a dice term as written in a script, with the parameters the syntax gives it
type vC04Term struct {
	src          string
	times, sides int64
	hasMin       bool
	min          int64
	hasMax       bool
	max          int64
	lh           int // 0 none, 1 keep low, 2 keep high, 3 drop low, 4 drop high
	n            int64
}

var vC04Terms = []vC04Term{
	{src: "3d6", times: 3, sides: 6},
	{src: "d100min60", times: 1, sides: 100, hasMin: true, min: 60},
	{src: "d6max1", times: 1, sides: 6, hasMax: true, max: 1},
	{src: "2d20", times: 2, sides: 20},
	{src: "2d6kh1", times: 2, sides: 6, lh: 2, n: 1},
	{src: "3d6kl2", times: 3, sides: 6, lh: 1, n: 2},
	{src: "3d6dl1", times: 3, sides: 6, lh: 3, n: 1},
	{src: "2d10dh1", times: 2, sides: 10, lh: 4, n: 1},
	{src: "2d6min3", times: 2, sides: 6, hasMin: true, min: 3},
	{src: "2d8max3", times: 2, sides: 8, hasMax: true, max: 3},
	{src: "2d6k1", times: 2, sides: 6, lh: 2, n: 1},
	{src: "2d6q1", times: 2, sides: 6, lh: 1, n: 1},
	{src: "d20", times: 1, sides: 20},
	{src: "2d4kl1min2", times: 2, sides: 4, lh: 1, n: 1, hasMin: true, min: 2},
}

// second / third terms: the plain ones and one of each modifier family
var vC04Seconds = []int{0, 3, 4, 8, 9, 12}

// vSortNet sorts up to 4 symbolic integers ascending without branching.
func vSortNet(xs []int64) []int64 {
	ys := make([]int64, len(xs))
	copy(ys, xs)
	for i := 0; i < len(ys); i++ {
		for j := 0; j+1 < len(ys)-i; j++ {
			a, b := ys[j], ys[j+1]
			ys[j] = vIteInt64(a <= b, a, b)
			ys[j+1] = vIteInt64(a <= b, b, a)
		}
	}
	return ys
}

// vC04TermValue is what the dice rule computes for a term from its dice, in
// roll order; it also returns the dice after the term's own min/max clamps.
func vC04TermValue(t vC04Term, dice []int64) (int64, []int64) {
	cl := make([]int64, len(dice))
	for i, d := range dice {
		if t.hasMax {
			d = vIteInt64(d > t.max, t.max, d)
		}
		if t.hasMin {
			d = vIteInt64(d < t.min, t.min, d)
		}
		cl[i] = d
	}
	keep := int(t.times)
	switch t.lh {
	case 1, 2:
		keep = int(t.n)
	case 3, 4:
		keep = int(t.times - t.n)
	}
	if keep < 0 {
		keep = 0
	}
	if keep > len(cl) {
		keep = len(cl)
	}
	s := vSortNet(cl)
	sum := int64(0)
	switch t.lh {
	case 0:
		for _, d := range cl {
			sum += d
		}
	case 1, 4: // lowest kept
		for i := 0; i < keep; i++ {
			sum += s[i]
		}
	case 2, 3: // highest kept
		for i := 0; i < keep; i++ {
			sum += s[len(s)-1-i]
		}
	}
	return sum, cl
}

//vh:prop=C04 tiers=quick,thorough sigkeys=form,a,b,c summaries=Roll:roll-contract solver=z3-new/int unwind=12 unwind_ok=1 budget_s=1500 bounds="dice terms through the VM syntax, two or three per program ('A + B' for 14 x 6 term pairs, 'A + 3d6 + B', 'B + A' and '(A) * 1 + B'), terms with concrete count / sides / keep / drop / min / max parameters and every die a symbolic Roll-contract value: each term's value in the process text and the program's result are what the dice rule computes from that term's own dice (in roll order, clamped by that term's own min/max only), the dice listed in each annotation are that term's clamped dice, one draw per die"
func VH_C04_vm() {
	form := vChoice("form", 4)
	a := vChoice("a", len(vC04Terms))
	b := vC04Seconds[vChoice("b", len(vC04Seconds))]
	var terms []vC04Term
	src := ""
	switch form {
	case 0:
		terms = []vC04Term{vC04Terms[a], vC04Terms[b]}
		src = terms[0].src + " + " + terms[1].src
	case 1:
		terms = []vC04Term{vC04Terms[a], vC04Terms[0], vC04Terms[b]}
		src = terms[0].src + " + 3d6 + " + terms[2].src
	case 2:
		terms = []vC04Term{vC04Terms[b], vC04Terms[a]}
		src = terms[0].src + " + " + terms[1].src
	default:
		terms = []vC04Term{vC04Terms[a], vC04Terms[b]}
		src = "(" + terms[0].src + ") * 1 + " + terms[1].src
	}
	vm := vSeededVM()
	err := vm.Run(src)
	vReach("ran")
	vAssert(err == nil, "dice-program-evaluates")
	if err != nil {
		return
	}
	vAssert(vm.RestInput == "", "program-consumed-entirely")
	ret, ok := vm.Ret.ReadInt()
	vAssert(ok, "integer-result")
	total := int64(0)
	for _, t := range terms {
		total += t.times
	}
	vAssert(int64(vDrawCount()) == total, "one-draw-per-die")
	k := 0
	want := int64(0)
	vals := make([]int64, len(terms))
	clamped := make([][]int64, len(terms))
	for ti, t := range terms {
		dice := make([]int64, t.times)
		for i := range dice {
			dice[i] = int64(vDraw(k)) + 1
			vAssert(vAnd(dice[i] >= 1, dice[i] <= t.sides), "die-in-face-range")
			k++
		}
		vals[ti], clamped[ti] = vC04TermValue(t, dice)
		want += vals[ti]
	}
	vAssert(int64(ret) == want, "result-is-what-the-terms'-own-dice-imply")

	detail := vm.GetDetailText()
	vObserve("detail", detail)
	skel := vStrSkel(detail)
	ints := vStrInts(detail)
	// numbers outside [..] are the term values (plus the literal 1 of form 3);
	// numbers after '=' inside the annotation that follows are the dice it lists
	var outs []int64
	var lists [][]int64
	depth, ki := 0, 0
	afterEq := false
	for i := 0; i < len(skel); i++ {
		switch c := skel[i]; {
		case c == '[':
			depth++
			afterEq = false
		case c == ']':
			depth--
		case c == '=' && depth == 1:
			afterEq = true
		case c == '#':
			if depth == 0 {
				outs = append(outs, ints[ki])
				lists = append(lists, nil)
			} else if afterEq && depth == 1 && len(lists) > 0 {
				lists[len(lists)-1] = append(lists[len(lists)-1], ints[ki])
			}
			ki++
		}
	}
	wantOuts := len(terms)
	if form == 3 {
		wantOuts++
	}
	vAssert(len(outs) == wantOuts, "process-text-shows-every-term")
	if len(outs) != wantOuts {
		return
	}
	for ti := range terms {
		oi := ti
		if form == 3 && ti >= 1 {
			oi = ti + 1
		}
		vAssert(outs[oi] == vals[ti], "term-value-in-process-text-is-what-its-dice-imply")
		listed, cl := lists[oi], clamped[ti]
		if len(listed) == 0 {
			continue // single dice are shown without a list
		}
		vAssert(len(listed) == len(cl), "annotation-lists-every-die-of-its-term")
		if len(listed) == len(cl) {
			for _, d := range cl {
				vAssert(vCountEq(listed, d) == vCountEq(cl, d), "annotation-lists-the-term's-own-clamped-dice")
			}
		}
	}
}

func init() {
	vHarnesses["VH_C04_realroll"] = VH_C04_realroll
}

//vh:prop=C04 tiers=quick,thorough unwind=6 solver=z3-new/int portfolio=cvc5/int,z3/bv,z3-new/bv budget_s=600 bounds="RollCommon with one or two dice through the REAL sampler (no summary for Roll): side count a 64-bit symbol over [1, 2^60], every generator output a fresh symbol, any number of rejected draws (inductive loop cut): each die shown and the total lie in the face range - the legality of a die does not rest on Roll's contract alone but is re-established here for every side count, including those at the 32-bit boundary"
func VH_C04_realroll() {
	src := &rand.PCGSource{}
	times := 1 + vChoice("times", 2)
	sides := vInt64("sides")
	vAssume(sides >= 1)
	vAssume(sides <= 1<<60) // (two dice: the total stays below 2^63)
	num, text := RollCommon(src, IntType(times), IntType(sides), nil, nil, 0, 0, 0, 0)
	vReach("rolled")
	vAssert(vAnd(int64(num) >= int64(times), int64(num) <= int64(times)*sides), "total-within-the-face-range")
	shown := vStrInts(text)
	for _, d := range shown {
		vAssert(vAnd(d >= 1, d <= sides), "die-shown-lies-in-its-face-range")
	}
	vAssert(vDrawsFrom(src) == vDrawCount(), "draws-from-given-source")
}

// dice terms nested in the count, the sides or a modifier argument of an
// outer roll, with the outer roll's own modifiers applied afterwards
var vC04Nested = []struct {
	src      string
	min, max string // value under min / max mode; "error" if the parameters are illegal
}{
	{"3d(1d6)k1", "1", "6"},
	{"4d6k(1d1)", "1", "6"},
	{"2d(1d4)min10", "20", "20"},
	{"2d(1d4)k0", "error", "error"},
	{"(1d2)d(1d6)q1", "1", "6"},
	{"3d(2d3)dl1 + 2d(1d4)k1", "3", "16"},
	{"2d(1d(1d6))max2", "2", "4"},
	{"3d6k(1d2) + 3d(1d6)k(1d2)", "2", "24"},
	{"2d(1d6)max0", "0", "0"},
	{"2d6dh(1d1) + 1d(2d3)min4", "5", "12"},
}

func init() {
	vHarnesses["VH_C04_nested"] = VH_C04_nested
}

//vh:prop=C04 tiers=quick,thorough sigkeys=prog,mode budget_s=600 bounds="10 programs in which dice terms are nested in the count, sides or a modifier argument of an outer roll whose own keep / drop / min / max modifiers follow, under min and max mode (every die at 1 / its side count): the total is what the outer rule computes with its own modifiers, illegal parameters are rejected; evaluated twice in one program as well (the second occurrence reuses dice-state slots)"
func VH_C04_nested() {
	pr := vC04Nested[vChoice("prog", len(vC04Nested))]
	maxMode := vChoice("mode", 2) == 1
	vm := vNewVM()
	vm.Config.DiceMinMode = !maxMode
	vm.Config.DiceMaxMode = maxMode
	want := pr.min
	if maxMode {
		want = pr.max
	}
	for _, src := range []string{pr.src, "[" + pr.src + ", " + pr.src + "][1]"} {
		err := vm.Run(src)
		if want == "error" {
			vAssert(err != nil, "illegal-parameter-is-rejected")
			continue
		}
		vAssert(err == nil, "legal-dice-program-evaluates")
		if err != nil {
			return
		}
		vAssert(vm.Ret.ToRepr() == want, "total-is-what-the-outer-rule-computes-with-its-own-modifiers")
	}
	vReach("ran")
}
