//go:build verif

package dicescript

// Harness runtime.  Every function here whose name starts with "v" is an
// engine intrinsic: gosymx replaces the call by its symbolic meaning.  The
// bodies below are the *replay* implementation used when the same harness is
// compiled natively and fed a solver model (VERIF_REPLAY_* environment).

import (
	"sync"
	"fmt"
	"regexp"
	"strconv"

	"golang.org/x/exp/rand"
)

type vReplaySym struct {
	Name  string `json:"name"`
	Kind  string `json:"kind"`
	Label string `json:"label"`
	W     int    `json:"w"`
}

type vReplayFile struct {
	Harness string            `json:"harness"`
	Kind    string            `json:"kind"`
	Tag     string            `json:"tag"`
	Msg     string            `json:"msg"`
	Syms    []vReplaySym      `json:"syms"`
	Model   map[string]uint64 `json:"model"`
	Params  map[string]int    `json:"params"`
}

type vAssertFailure struct{ tag string }
type vAssumeFailure struct{}

var vHarnesses = map[string]func(){}

var vR struct {
	file    *vReplayFile
	nondet  []uint64
	draws   []uint64
	ni, di  int
	reached []string
	notes   []string
	obs     []string
	nDraws  int
	srcs    map[*rand.PCGSource]int
}

var vDrawMu sync.Mutex

func vReset(f *vReplayFile) {
	vR.file = f
	vR.nondet, vR.draws = nil, nil
	vR.ni, vR.di, vR.nDraws = 0, 0, 0
	vR.reached, vR.notes, vR.obs = nil, nil, nil
	vR.srcs = map[*rand.PCGSource]int{}
	for _, s := range f.Syms {
		switch s.Kind {
		case "nondet":
			vR.nondet = append(vR.nondet, f.Model[s.Name])
		case "draw":
			vR.draws = append(vR.draws, f.Model[s.Name])
		}
	}
	rand.VerifDrawHook = func(src *rand.PCGSource) (uint64, bool) {
		// (the two goroutines of vConcurrently both roll: the replay runtime's
		// own bookkeeping must not race)
		vDrawMu.Lock()
		defer vDrawMu.Unlock()
		vR.nDraws++
		vR.srcs[src]++
		if vR.di < len(vR.draws) {
			v := vR.draws[vR.di]
			vR.di++
			return v, true
		}
		return 0, true
	}
}

func vNext() uint64 {
	if vR.ni < len(vR.nondet) {
		v := vR.nondet[vR.ni]
		vR.ni++
		return v
	}
	vR.ni++
	return 0
}

func vInt64(label string) int64     { return int64(vNext()) }
func vUint64(label string) uint64   { return vNext() }
func vInt(label string) int         { return int(vNext()) }
func vByte(label string) byte       { return byte(vNext()) }
func vBool(label string) bool       { return vNext() != 0 }
func vFloat64(label string) float64 { return float64frombits(vNext()) }
func vChoice(label string, n int) int {
	v := int(vNext())
	if v < 0 || v >= n {
		panic(vAssumeFailure{})
	}
	return v
}
func vAssume(c bool) {
	if !c {
		panic(vAssumeFailure{})
	}
}
func vAssert(c bool, tag string) {
	if !c {
		panic(vAssertFailure{tag})
	}
}
func vFail(tag string)       { panic(vAssertFailure{tag}) }
func vReach(tag string)      { vR.reached = append(vR.reached, tag) }
func vNote(k string, v any)  { vR.notes = append(vR.notes, k+"="+fmt.Sprint(v)) }
func vSymbolic() bool        { return false }
func vObserve(k string, v any) { vR.obs = append(vR.obs, k+"="+fmt.Sprint(v)) }
func vDrawCount() int        { return vR.nDraws }
func vMaxDraws(k int)        {}
func vGlobalRandUses() int   { return 0 }
func vWork() int64           { return 0 }
func vDrawsFrom(src *rand.PCGSource) int { return vR.srcs[src] }
func vDraw(k int) uint64 {
	if k < len(vR.draws) {
		return vR.draws[k]
	}
	return 0
}
func vParam(name string, def int) int {
	if vR.file != nil {
		if v, ok := vR.file.Params[name]; ok {
			return v
		}
	}
	return def
}

var vNumRe = regexp.MustCompile(`[0-9]+`)

// vStrInts returns the decimal numbers in s; a '-' is a sign iff it directly
// precedes digits and does not directly follow a digit.
func vStrInts(s string) []int64 {
	var out []int64
	vScanNums(s, func(tok string, isNum bool) {
		if isNum {
			v, _ := strconv.ParseInt(tok, 10, 64)
			out = append(out, v)
		}
	})
	return out
}

func vStrSkel(s string) string {
	out := ""
	vScanNums(s, func(tok string, isNum bool) {
		if isNum {
			out += "#"
		} else {
			out += tok
		}
	})
	return out
}

func vScanNums(s string, f func(tok string, isNum bool)) {
	i := 0
	prevNum := false
	chunk := ""
	for i < len(s) {
		c := s[i]
		isDigit := c >= '0' && c <= '9'
		isSign := c == '-' && !prevNum && i+1 < len(s) && s[i+1] >= '1' && s[i+1] <= '9'
		if isDigit || isSign {
			j := i + 1
			for j < len(s) && s[j] >= '0' && s[j] <= '9' {
				j++
			}
			tok := s[i:j]
			digits := tok
			if digits[0] == '-' {
				digits = digits[1:]
			}
			if len(digits) > 1 && digits[0] == '0' {
				// not a canonical decimal rendering (e.g. "00" in Fate text): plain text
				chunk += tok
				prevNum = true
				i = j
				continue
			}
			if chunk != "" {
				f(chunk, false)
				chunk = ""
			}
			f(tok, true)
			prevNum = true
			i = j
			continue
		}
		chunk += s[i : i+1]
		prevNum = false
		i++
	}
	if chunk != "" {
		f(chunk, false)
	}
}

func vConcretizeInt64(x int64, max int) int64 { return x }
func vConcretizeString(s string) string       { return s }
func vSymBytes(label string, n int) []byte {
	out := make([]byte, n)
	for i := range out {
		out[i] = byte(vNext())
	}
	return out
}
