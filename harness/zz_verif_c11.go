//go:build verif

package dicescript

func init() {
	vHarnesses["VH_C11_foot"] = VH_C11_foot
	vHarnesses["VH_C11_seq"] = VH_C11_seq
}

// what an embedding program can observe of a finished evaluation
func vC11Observe(vm *Context, err error) string {
	out := ""
	if err != nil {
		out = "error: " + err.Error()
	} else if vm.Ret != nil {
		out = vm.Ret.ToRepr()
	}
	return out + " | " + vm.GetDetailText() + " | " + vm.Matched + " | " + vm.RestInput + " | " + vAttrsString(vm)
}

//vh:prop=C11 tiers=quick,thorough sigkeys=a,b summaries=Roll:roll-log budget_s=900 bounds="sequential non-interference for every ordered pair of the 24 entry scenarios (three of them continue with an expression compiled on demand through RunExpr, two of those ill-formed) on two VMs: after VM A finished, VM B (different language, different program) runs to completion; everything observable of A (value, process text, matched/rest text, variables) is unchanged, and A's next evaluation gives what it gives on a VM that never shared the process with B"
func VH_C11_seq() {
	ia := vChoice("a", len(vC11Entries))
	ib := vChoice("b", len(vC11Entries))
	mk := func(e int) *Context {
		var vm *Context
		if vC11Entries[e].seeded {
			vm = vSeededVM()
		} else {
			vm = vNewVM()
		}
		vm.Config.ParseErrorLanguage = vC11Entries[e].lang
		vm.Config.DiceMinMode = true
		vm.Config.CallbackSt = func(string, string, *VMValue, *VMValue, string, string) {}
		return vm
	}
	next := func(vm *Context) string {
		if x := vC11Entries[ia].expr; x != "" {
			// an expression compiled on demand (no top-level Parse in between)
			v, err := vm.RunExpr(x, false)
			out := ""
			if v != nil {
				out = v.ToRepr()
			}
			if err != nil {
				out += " error: " + err.Error()
			}
			return out + " | " + vC11Observe(vm, nil)
		}
		return vC11Observe(vm, vm.Run(vC11Entries[ia].src))
	}
	a := mk(ia)
	ea := a.Run(vC11Entries[ia].src)
	before := vC11Observe(a, ea)
	// the reference: the same VM configuration doing the same two evaluations
	// before VM B ever runs in this process
	ref := mk(ia)
	_ = ref.Run(vC11Entries[ia].src)
	want := next(ref)
	b := mk(ib)
	eb := b.Run(vC11Entries[ib].src)
	_ = vC11Observe(b, eb)
	vReach("ran")
	vAssert(vC11Observe(a, ea) == before, "finished-evaluation-unchanged-by-another-VM")
	// A's next evaluation equals that of the VM that never shared the process with B
	// (VMs without their own generator share the package generator by design -
	// a recorded finding - and the random array methods draw symbolic values
	// that two generators need not repeat: both are left to the footprint harness)
	if vC11Entries[ia].seeded && vC11Entries[ia].name != "shuffle-seeded" {
		vAssert(next(a) == want, "next-evaluation-as-when-run-alone")
	}
}

// API entry points as one goroutine would use them, each on its own VM
var vC11Entries = []struct {
	name   string
	seeded bool
	lang   int
	src    string
	expr   string // if set: the VM's next evaluation is this expression through RunExpr
}{
	{"parse-error-cn", true, ParseErrorLanguageChinese, "1 +", ""},
	{"parse-error-en", true, ParseErrorLanguageEnglish, "(1", ""},
	{"dice-unseeded", false, 0, "2d20kh1 + d6", ""},
	{"dice-seeded", true, 0, "2d20kh1 + d6 + 2a8 + f + b1", ""},
	{"bound-method", true, 0, "[1,2,3].sum() + [4].len()", ""},
	{"function", true, 0, "func fn1(n) { return n * 2 }; fn1(21)", ""},
	{"computed", true, 0, "&v1 = 1 + 1; v1 + v1", ""},
	{"template-detail", true, 0, "`a{1+1}b{% x = 2 %}`", ""},
	{"dict-methods", true, 0, "{'a':1,'b':2}.keys().len() + {'a':1}.a", ""},
	{"builtins", true, 0, "toStr(1) + repr([1]) + toStr(abs(-2)) + toStr(ceil(1.5))", ""},
	{"shuffle-unseeded", false, 0, "[3,1,2].shuffle(); [1,2].rand()", ""},
	{"shuffle-seeded", true, 0, "[3,1,2].shuffle(); [1,2].rand()", ""},
	{"st", true, 0, "^st力量60敏捷+1", ""},
	{"default-sides", true, 0, "d + 2d", ""},
	{"runtime-error", true, 0, "1 / 0", ""},
	{"lazy-syntax-error-en", true, ParseErrorLanguageEnglish, "x = 1", "(x + 2"},
	{"lazy-syntax-error-cn", true, ParseErrorLanguageChinese, "x = 1", "[x, 2"},
	{"lazy-expression", true, 0, "x = 5", "x + 2d1"},
	{"computed-calls-failing-function", true, 0, "func bad() { 1 / 0 }; &c1 = bad() + 1; c1", ""},
	{"nested-calls", true, 0, "func g1(x) { x * 2 }; func f1(x) { 1 + g1(x) + x }; f1(5)", ""},
	{"computed-in-function", true, 0, "&c2 = 3 + 4; func f2(x) { c2 + x }; f2(1) + f2(2)", ""},
	{"computed-assigns-a-name", true, 0, "&dmg = (bonus = 3d1) * 2; dmg", ""},
	{"computed-reads-that-name", true, 0, "bonus = 100; &atk = bonus + 1; atk", ""},
	{"computed-probes-that-name", true, 0, "&probe = bonus; probe", ""},
}

//vh:prop=C11 tiers=quick,thorough sigkeys=entry summaries=Roll:roll-log budget_s=600 bounds="24 API entry-point scenarios (syntax errors in two languages, seeded and unseeded dice of every family, bound methods, functions, computed values, templates with process text and bytecode listing, dict methods, builtins, random array methods, st, default-sides dice, run-time error) each on a fresh VM including NewVM, Run, all observers and a JSON snapshot: over all explored paths no plain (unlocked, non-atomic) store may hit memory reachable from a package-level variable of dicescript or x/exp/rand; W = {} means VMs that share no values can only meet on immutable data"
func VH_C11_foot() {
	k := vChoice("entry", len(vC11Entries))
	e := vC11Entries[k]
	vFootprintBegin()
	vConcurrently(func() {
		var vm *Context
		if e.seeded {
			vm = vSeededVM()
		} else {
			vm = vNewVM()
		}
		vm.Config.ParseErrorLanguage = e.lang
		vm.Config.CallbackSt = func(string, string, *VMValue, *VMValue, string, string) {}
		if e.name == "default-sides" {
			vm.Config.DefaultDiceSideExpr = "d10"
		}
		err := vm.Run(e.src)
		vObserveAll(vm, err)
		_, _ = vm.Attrs.ToJSON()
		_, _ = vm.GetCurSeed()
	})
	vReach("ran")
	names := vSharedWriteNames()
	vCheck(vSharedWrites() == 0, "no-unsynchronised-write-to-package-level-state:"+names+";")
}
