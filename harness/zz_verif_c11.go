//go:build verif

package dicescript

func init() {
	vHarnesses["VH_C11_foot"] = VH_C11_foot
}

// API entry points as one goroutine would use them, each on its own VM
var vC11Entries = []struct {
	name   string
	seeded bool
	lang   int
	src    string
}{
	{"parse-error-cn", true, ParseErrorLanguageChinese, "1 +"},
	{"parse-error-en", true, ParseErrorLanguageEnglish, "(1"},
	{"dice-unseeded", false, 0, "2d20kh1 + d6"},
	{"dice-seeded", true, 0, "2d20kh1 + d6 + 2a8 + f + b1"},
	{"bound-method", true, 0, "[1,2,3].sum() + [4].len()"},
	{"function", true, 0, "func fn1(n) { return n * 2 }; fn1(21)"},
	{"computed", true, 0, "&v1 = 1 + 1; v1 + v1"},
	{"template-detail", true, 0, "`a{1+1}b{% x = 2 %}`"},
	{"dict-methods", true, 0, "{'a':1,'b':2}.keys().len() + {'a':1}.a"},
	{"builtins", true, 0, "toStr(1) + repr([1]) + toStr(abs(-2)) + toStr(ceil(1.5))"},
	{"shuffle-unseeded", false, 0, "[3,1,2].shuffle(); [1,2].rand()"},
	{"shuffle-seeded", true, 0, "[3,1,2].shuffle(); [1,2].rand()"},
	{"st", true, 0, "^st力量60敏捷+1"},
	{"default-sides", true, 0, "d + 2d"},
	{"runtime-error", true, 0, "1 / 0"},
}

//vh:prop=C11 tiers=quick,thorough sigkeys=entry summaries=Roll:roll-log budget_s=600 bounds="15 API entry-point scenarios (syntax errors in two languages, seeded and unseeded dice of every family, bound methods, functions, computed values, templates with process text and bytecode listing, dict methods, builtins, random array methods, st, default-sides dice, run-time error) each on a fresh VM including NewVM, Run, all observers and a JSON snapshot: over all explored paths no plain (unlocked, non-atomic) store may hit memory reachable from a package-level variable of dicescript or x/exp/rand; W = {} means VMs that share no values can only meet on immutable data"
func VH_C11_foot() {
	k := vChoice("entry", len(vC11Entries))
	e := vC11Entries[k]
	vFootprintBegin()
	vConcurrently(func() {
		var vm *Context
		if e.seeded {
			vm = vSeededVM()
		} else {
			vm = vNewVM()
		}
		vm.Config.ParseErrorLanguage = e.lang
		vm.Config.CallbackSt = func(string, string, *VMValue, *VMValue, string, string) {}
		if e.name == "default-sides" {
			vm.Config.DefaultDiceSideExpr = "d10"
		}
		err := vm.Run(e.src)
		vObserveAll(vm, err)
		_, _ = vm.Attrs.ToJSON()
		_, _ = vm.GetCurSeed()
	})
	vReach("ran")
	names := vSharedWriteNames()
	vCheck(vSharedWrites() == 0, "no-unsynchronised-write-to-package-level-state:"+names+";")
}
