//go:build verif

package dicescript

import "strings"

func init() {
	vHarnesses["VH_C10_value"] = VH_C10_value
	vHarnesses["VH_C10_map"] = VH_C10_map
}

// document shapes; T and U are replaced by (symbolic) type tags, N by a
// (symbolic) number
var vC10Shapes = []string{
	`{"t":T}`, `{"t":T,"v":null}`, `{"t":T,"v":N}`, `{"t":T,"v":"s"}`, `{"t":T,"v":1.5}`, `{"t":T,"v":true}`,
	`{"t":T,"v":{"name":"zzz"}}`, `{"t":T,"v":{"name":"abs"}}`, `{"t":T,"v":{"name":null}}`,
	`{"t":T,"v":{"list":[null]}}`, `{"t":T,"v":{"list":[{"t":0,"v":N},null]}}`, `{"t":T,"v":{"list":null}}`, `{"t":T,"v":{"list":[{"t":U}]}}`,
	`{"t":T,"v":{"dict":{"k":null}}}`, `{"t":T,"v":{"dict":{"k":{"t":U}}}}`, `{"t":T,"v":{"dict":null}}`, `{"t":T,"v":{"dict":{"k":{"t":U,"v":{"list":[null]}}}}}`,
	`{"t":T,"v":{"expr":"1+","attrs":null}}`, `{"t":T,"v":{"expr":"this.a","attrs":{"a":null}}}`, `{"t":T,"v":{"expr":"x","name":"fn1","params":null}}`, `{"t":T,"v":{"expr":"return a","name":"fn1","params":["a"]}}`,
	// native-function names that exist somewhere in the library but not as free functions: methods of the built-in types
	`{"t":T,"v":{"name":"Array.sum"}}`, `{"t":T,"v":{"name":"Dict.keys"}}`, `{"t":T,"v":{"name":"Computed.compute"}}`, `{"t":T,"v":{"name":"sum"}}`, `{"t":T,"v":{"name":"Array.kh"}}`, `{"t":T,"v":{"name":"ceil"}}`,
	`{"t":T,"v":{"name":"Array.sum","self":null}}`, `{"t":T,"v":{"name":"Str.len"}}`,
	// every real builtin by name (each must arrive callable)
	`{"t":T,"v":{"name":"load"}}`, `{"t":T,"v":{"name":"loadRaw"}}`, `{"t":T,"v":{"name":"store"}}`, `{"t":T,"v":{"name":"floor"}}`, `{"t":T,"v":{"name":"round"}}`, `{"t":T,"v":{"name":"toInt"}}`,
	`{"t":T,"v":{"name":"toFloat"}}`, `{"t":T,"v":{"name":"toStr"}}`, `{"t":T,"v":{"name":"toBool"}}`, `{"t":T,"v":{"name":"repr"}}`, `{"t":T,"v":{"name":"typeId"}}`, `{"t":T,"v":{"name":"dir"}}`,
	`{"t":T,"v":[1,2]}`, `{"t":T,"v":{"list":{"a":1}}}`, `{"t":T,"v":{}}`, `null`, `[]`, `"str"`, `12`, `{"t":"0"}`, `{"t":1.5}`, `{"T":T,"V":N}`, `{}`,
}

var vC10Scripts = []string{
	"x", "x + 1", "x[0]", "x.a", "x()", "x(1)", "x('hp', 12)", "x('hp')", "-x", "x == x", "x.len()", "[x][0]", "x ? 1 : 2", "`{x}`", "x ?? 1", "toStr(x)", "dir(x)", "typeId(x)", "repr(x)",
	"x.sum()", "x.keys()", "x[0:1]", "x.a = 1", "x[0] = 1", "x.compute()", "x * 2", "[1] + x", "x.kh()", "{'k': x}.k", "x && 1", "(x)d6", "load('x')",
}

func vC10Doc(shape string) string {
	t := vInt64("t")
	doc := strings.Replace(shape, "T", vJSONInt(t), -1)
	if strings.Contains(shape, "U") {
		doc = strings.Replace(doc, "U", vJSONInt(vInt64("u")), -1)
	}
	if strings.Contains(shape, "N") {
		doc = strings.Replace(doc, "N", vJSONInt(vInt64("n")), -1)
	}
	return doc
}

// every operation an embedding program or a script may apply to a decoded value
func vC10Battery(v *VMValue, script string) {
	_ = v.ToString()
	_ = v.ToRepr()
	_ = v.AsBool()
	_ = v.GetTypeName()
	_ = ValueEqual(v, v.Clone(), true)
	_ = ValueEqual(v, NewIntVal(1), true)
	_, _ = v.ToJSON()
	_, _ = v.AsDictKey()
	vm := vNewVM()
	vm.Config.OpCountLimit = 30000
	vm.Config.DiceMinMode = true
	vm.Attrs.Store("x", v)
	err := vm.Run(script)
	vObserveAll(vm, err)
}

//vh:prop=C10 tiers=quick,thorough sigkeys=shape,script unwind=6 unwind_ok=1 depth_is_violation=1 maxdepth=4000 maxsteps=150000000 budget_s=1800 quick:P.scripts=10 thorough:P.scripts=32 bounds="52 document shapes (well-typed, ill-typed, missing / null fields, nested nulls, unknown native names, wrong container kinds, scalars, wrong-case keys) with the type tags and numbers as 64-bit solver symbols (so every known and unknown tag is a case of the decoder's switch), decoded with VMValueFromJSON through the real UnmarshalJSON code (JSON syntax and struct mapping by the engine's encoding/json model); every successfully decoded value goes through printing, repr, truthiness, equality, clone, re-serialisation, dict-key use and a script (quick: 8 scripts, thorough: 30) binding it to a variable: no panic site may be reachable"
func VH_C10_value() {
	si := vChoice("shape", len(vC10Shapes))
	doc := vC10Doc(vC10Shapes[si])
	v, err := VMValueFromJSON([]byte(doc))
	vReach("decoded")
	if err != nil {
		return
	}
	vAssert(v != nil, "decoded-value-not-nil")
	// two decodings of one document are distinct values that compare without crashing
	if v2, err2 := VMValueFromJSON([]byte(doc)); err2 == nil && v2 != nil {
		_ = ValueEqual(v, v2, true)
		_ = ValueEqual(NewArrayVal(v), NewArrayVal(v2), true)
		vm := vNewVM()
		vm.Config.OpCountLimit = 30000
		vm.Attrs.Store("x", v)
		vm.Attrs.Store("y", v2)
		vObserveAll(vm, vm.Run("x == y"))
		vObserveAll(vm, vm.Run("{'k': x} == {'k': y}"))
	}
	ns := vParam("scripts", 8)
	script := vC10Scripts[vChoice("script", ns)]
	vC10Battery(v, script)
}

var vC10MapShapes = []string{
	`{}`, `{"k":null}`, `{"k":{"t":T}}`, `{"k":{"t":T,"v":N}}`, `{"k":{"t":T,"v":{"list":[null]}},"j":{"t":U}}`, `[]`, `null`, `{"k":1}`, `{"k":{"t":T,"v":{"name":"zzz"}}}`,
}

//vh:prop=C10 tiers=quick,thorough sigkeys=shape unwind=6 unwind_ok=1 depth_is_violation=1 maxdepth=4000 budget_s=900 bounds="9 variable-map document shapes with symbolic tags decoded by ValueMap.UnmarshalJSON; every stored value is then read back, printed, compared, re-serialised (Attrs.ToJSON) and used by a script"
func VH_C10_map() {
	si := vChoice("shape", len(vC10MapShapes))
	doc := vC10Doc(vC10MapShapes[si])
	m := &ValueMap{}
	err := m.UnmarshalJSON([]byte(doc))
	vReach("decoded")
	if err != nil {
		return
	}
	_ = m.Length()
	_, _ = m.ToJSON()
	m.Range(func(k string, v *VMValue) bool {
		_ = v.ToString()
		_ = v.ToRepr()
		_ = v.AsBool()
		return true
	})
	vm := vNewVM()
	vm.Attrs = m
	vm.Config.OpCountLimit = 30000
	err = vm.Run("k")
	vObserveAll(vm, err)
	err = vm.Run("k == j")
	vObserveAll(vm, err)
}
