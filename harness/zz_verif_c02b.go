//go:build verif

package dicescript

import "strings"

func init() {
	vHarnesses["VH_C02_pairs"] = VH_C02_pairs
}

// A reference evaluator for operator chains, transliterated from the
// expression layer of the published grammar (roll.peg, "越靠下的算符优先级越高"):
//
//	exprLogicOr  <- exprLogicAnd ("||" exprLogicAnd)*          short-circuit, yields an operand
//	exprLogicAnd <- exprBitwiseOr ("&&" exprBitwiseOr)*        both sides evaluated
//	exprBitwiseOr <- exprBitwiseAnd ("|" exprBitwiseAnd)*
//	exprBitwiseAnd <- exprCompare ("&" exprCompare)*
//	exprCompare  <- exprAdditive (cmp exprAdditive)*
//	exprAdditive <- exprMultiplicative (("+"|"-") exprMultiplicative)*
//	exprMultiplicative <- exprNullCoalescing (("*"|"/"|"%") exprExp)*
//	exprNullCoalescing <- exprExp ("??" exprExp)*
//	exprExp      <- unary                                      (** is outside: math.Pow)
//
// It works on a token list (operands are integers, possibly with a unary
// minus), not on text, and reports how many tokens the grammar consumes.
type vTok struct {
	op  string // "" for an operand
	neg bool
	v   int64
}

type vChain struct {
	toks []vTok
	pos  int
	err  bool // a run-time error is prescribed
	soft bool // the error arises only in the right operand of && whose left operand is false
	dead int  // >0: inside an operand that is not evaluated
}

func (p *vChain) peek() string {
	if p.pos < len(p.toks) {
		return p.toks[p.pos].op
	}
	return "$"
}

func (p *vChain) operand() int64 {
	t := p.toks[p.pos]
	p.pos++
	if t.neg {
		return -t.v
	}
	return t.v
}

func (p *vChain) fail(inAndRightOfFalse bool) {
	if p.dead > 0 || p.err {
		return
	}
	p.err = true
	p.soft = inAndRightOfFalse
}

func (p *vChain) nullco() int64 {
	l := p.operand()
	for p.peek() == "??" {
		p.pos++
		p.operand() // integers are never null: the left operand is the value
	}
	return l
}

func (p *vChain) mult() int64 {
	l := p.nullco()
	for {
		op := p.peek()
		if op != "*" && op != "/" && op != "%" {
			return l
		}
		p.pos++
		r := p.operand() // exprExp, not exprNullCoalescing
		if p.dead > 0 || p.err {
			continue
		}
		switch op {
		case "*":
			l = l * r
		case "/":
			if r == 0 {
				p.fail(false)
			} else {
				l = l / r // Go's truncated division; MinInt64 / -1 wraps
			}
		case "%":
			if r == 0 {
				p.fail(false)
			} else {
				l = l % r
			}
		}
	}
}

func (p *vChain) additive() int64 {
	l := p.mult()
	for {
		op := p.peek()
		if op != "+" && op != "-" {
			return l
		}
		p.pos++
		r := p.mult()
		if p.dead > 0 || p.err {
			continue
		}
		if op == "+" {
			l = l + r
		} else {
			l = l - r
		}
	}
}

func (p *vChain) compare() int64 {
	l := p.additive()
	for {
		op := p.peek()
		if op != "<" && op != "<=" && op != "==" && op != "!=" && op != ">=" && op != ">" {
			return l
		}
		p.pos++
		r := p.additive()
		if p.dead > 0 || p.err {
			continue
		}
		switch op {
		case "<":
			l = b2i(l < r)
		case "<=":
			l = b2i(l <= r)
		case "==":
			l = b2i(l == r)
		case "!=":
			l = b2i(l != r)
		case ">=":
			l = b2i(l >= r)
		case ">":
			l = b2i(l > r)
		}
	}
}

func (p *vChain) bitAnd() int64 {
	l := p.compare()
	for p.peek() == "&" {
		p.pos++
		r := p.compare()
		if p.dead > 0 || p.err {
			continue
		}
		l = l & r
	}
	return l
}

func (p *vChain) bitOr() int64 {
	l := p.bitAnd()
	for p.peek() == "|" {
		p.pos++
		r := p.bitAnd()
		if p.dead > 0 || p.err {
			continue
		}
		l = l | r
	}
	return l
}

func (p *vChain) logicAnd() int64 {
	l := p.bitOr()
	for p.peek() == "&&" {
		p.pos++
		if p.dead > 0 || p.err {
			p.bitOr()
			continue
		}
		if l == 0 {
			// value is the left operand; whether the right one is evaluated is
			// not documented: an error that arises only there is not asserted
			had := p.err
			r := p.bitOr()
			_ = r
			if !had && p.err {
				p.soft = true
			}
			continue
		}
		l = p.bitOr()
	}
	return l
}

func (p *vChain) logicOr() int64 {
	l := p.logicAnd()
	for p.peek() == "||" {
		p.pos++
		if p.dead > 0 || p.err {
			p.logicAnd()
			continue
		}
		if l != 0 {
			p.dead++
			p.logicAnd()
			p.dead--
			continue
		}
		l = p.logicAnd()
	}
	return l
}

var vC02ChainOps = []string{"+", "-", "*", "/", "%", "==", "!=", "<", "<=", ">", ">=", "&", "|", "&&", "||", "??"}

// operand spellings: plain variable, negated variable, parenthesised variable
var vC02Spell = []string{"%s", "-%s", "(%s)"}

//vh:prop=C02 tiers=quick,thorough sigkeys=op1,op2,op3,neg,ws unwind=8 budget_s=1500 thorough:P.tierdeep=1 bounds="operator chains 'a op1 b op2 c' (quick: all 256 ordered pairs of the sixteen binary operators; thorough: all 4096 triples 'a op1 b op2 c op3 d'), operands are variables holding 64-bit solver symbols, each optionally negated, written with and without blanks; the reference is a token-level transliteration of the published grammar's expression layers (roll.peg) with the documented run-time rules; value, error and the text left unconsumed are compared; second evaluation on the same VM; ** is excluded (math.Pow uninterpreted)"
func VH_C02_pairs() {
	nops := 2
	if vParam("tierdeep", 0) == 1 {
		nops = 3
	}
	names := []string{"xx", "yy", "zz", "ww"}
	vals := []int64{vInt64("a"), vInt64("b"), vInt64("c"), 0}
	if nops == 3 {
		vals[3] = vInt64("d")
	}
	ops := make([]string, nops)
	ops[0] = vC02ChainOps[vChoice("op1", len(vC02ChainOps))]
	ops[1] = vC02ChainOps[vChoice("op2", len(vC02ChainOps))]
	if nops == 3 {
		ops[2] = vC02ChainOps[vChoice("op3", len(vC02ChainOps))]
	}
	// which of the first two right-hand operands carries a unary minus (quick: none or both)
	negMask := 0
	if nops == 3 {
		negMask = vChoice("neg", 4)
	} else {
		negMask = 3 * vChoice("neg", 2)
	}
	ws := vChoice("ws", 2)
	sep := " "
	if ws == 1 {
		sep = ""
	}
	var toks []vTok
	var sb strings.Builder
	var parts []string
	for i := 0; i <= nops; i++ {
		neg := i >= 1 && i <= 2 && negMask&(1<<(i-1)) != 0
		if i > 0 {
			toks = append(toks, vTok{op: ops[i-1]})
			parts = append(parts, ops[i-1])
		}
		toks = append(toks, vTok{neg: neg, v: vals[i]})
		if neg {
			parts = append(parts, "-"+names[i])
		} else {
			parts = append(parts, names[i])
		}
	}
	for i, s := range parts {
		if i > 0 {
			// without blanks some spellings change the tokens ("a--b" is fine, "a&&&b", "a|-b" too,
			// but "a<-b" etc. stay two tokens); only '&' '|' next to '&&' '||' and '?' runs are ambiguous
			sb.WriteString(sep)
		}
		sb.WriteString(s)
	}
	src := sb.String()
	if ws == 1 {
		// skip spellings whose token boundaries are ambiguous without blanks
		for _, o := range ops {
			if o == "&" || o == "|" || o == "&&" || o == "||" || o == "??" {
				return
			}
		}
	}
	ref := &vChain{toks: toks}
	want := ref.logicOr()
	restToks := ref.pos

	vm := vNewVM()
	for round := 0; round < 2; round++ {
		for i := 0; i <= nops; i++ {
			vm.Attrs.Store(names[i], NewIntVal(IntType(vals[i])))
		}
		err := vm.Run(src)
		if ref.err {
			if !ref.soft {
				vAssert(err != nil, "error-prescribed")
			}
			continue
		}
		vAssert(err == nil, "no-error-prescribed")
		if err != nil {
			return
		}
		// text the grammar leaves unconsumed
		wantRest := ""
		for i := restToks; i < len(parts); i++ {
			wantRest += parts[i]
		}
		gotRest := strings.ReplaceAll(vm.RestInput, " ", "")
		vAssert(gotRest == wantRest, "consumed-text-as-the-grammar-prescribes")
		got, isInt := vm.Ret.ReadInt()
		vAssert(isInt, "integer-result-prescribed")
		vAssert(int64(got) == want, "value-as-prescribed")
	}
	vReach("ran")
}

// operand kinds beyond numbers: 0 int (symbol), 1 float (symbol), 2 string,
// 3 array, 4 null, 5 dict
func vC02MixedOperand(vm *Context, name, label string, kind int, asCount bool) (i int64, f float64) {
	switch kind {
	case 0:
		if asCount {
			// a repeat count: boundary values instead of a symbol (the result's length follows it)
			i = []int64{-1, 0, 1, 3, 256, 257, 513, 1 << 62, -1 << 63}[vChoice(label+"count", 9)]
		} else {
			i = vInt64(label + "i")
		}
		vm.Attrs.Store(name, NewIntVal(IntType(i)))
	case 1:
		f = vFloat64(label + "f")
		vm.Attrs.Store(name, NewFloatVal(f))
	case 2:
		vm.Attrs.Store(name, NewStrVal("abc"))
	case 3:
		vm.Attrs.Store(name, NewArrayVal(NewIntVal(1), NewIntVal(2)))
	case 4:
		vm.Attrs.Store(name, NewNullVal())
	default:
		vm.Attrs.Store(name, NewDictValWithArrayMust(NewStrVal("a"), NewIntVal(1)).V())
	}
	return
}

var vC02MixedRepr = []string{"", "", "'abc'", "[1, 2]", "null", "{'a': 1}"}

func init() {
	vHarnesses["VH_C02_binop_mixed"] = VH_C02_binop_mixed
}

//vh:prop=C02 tiers=quick,thorough sigkeys=op,lkind,rkind,IgnoreDiv0 budget_s=900 bounds="sixteen binary operators x operand kinds {int, float (64-bit / Float64 symbols), string 'abc', array [1,2], null, dict {'a':1}} with at least one non-numeric operand, IgnoreDiv0 both ways, program 'x <op> y' through the real parser and VM: arithmetic, ordering and bitwise operators on a non-numeric operand are a type error whatever the other operand's value (also a zero divisor under IgnoreDiv0); string + string and array + array concatenate; array * int repeats (error for a negative count or more than 512 elements); == / != compare structurally; && || ?? yield an operand"
func VH_C02_binop_mixed() {
	op := vC02Ops[vChoice("op", len(vC02Ops))]
	lk, rk := vChoice("lkind", 6), vChoice("rkind", 6)
	if lk < 2 && rk < 2 {
		return // both numeric: VH_C02_binop
	}
	vm := vNewVM()
	li, lf := vC02MixedOperand(vm, "x", "l", lk, op == "*" && rk == 3)
	ri, _ := vC02MixedOperand(vm, "y", "r", rk, op == "*" && lk == 3)
	vm.Config.IgnoreDiv0 = vChoice("IgnoreDiv0", 2) == 1
	err := vm.Run("x " + op + " y")
	vReach("ran")
	repr := func() string {
		if err != nil || vm.Ret == nil {
			return "<error>"
		}
		return vm.Ret.ToRepr()
	}
	operand := func(left bool) {
		k := rk
		if left {
			k = lk
		}
		vAssert(err == nil, "no-error-prescribed")
		if err != nil {
			return
		}
		if k >= 2 {
			vAssert(repr() == vC02MixedRepr[k], "operand-is-the-value")
			return
		}
		// a numeric operand: same kind and payload
		if k == 0 {
			got, ok := vm.Ret.ReadInt()
			want := ri
			if left {
				want = li
			}
			vAssert(ok && int64(got) == want, "operand-is-the-value")
		} else {
			_, ok := vm.Ret.ReadFloat()
			vAssert(ok, "operand-is-the-value")
		}
	}
	switch op {
	case "+":
		switch {
		case lk == 2 && rk == 2:
			vAssert(err == nil && repr() == "'abcabc'", "string-concatenation")
		case lk == 3 && rk == 3:
			vAssert(err == nil && repr() == "[1, 2, 1, 2]", "array-concatenation")
		default:
			vAssert(err != nil, "type-error-prescribed")
		}
	case "*":
		if (lk == 3 && rk == 0) || (lk == 0 && rk == 3) {
			n := ri
			if lk == 0 {
				n = li
			}
			if n < 0 || n > 256 {
				vAssert(err != nil, "array-repeat:error-prescribed")
			} else {
				vAssert(err == nil, "array-repeat:no-error-prescribed")
				if err == nil {
					ad, ok := vm.Ret.ReadArray()
					vAssert(ok && int64(len(ad.List)) == 2*n, "array-repeat:length")
				}
			}
		} else {
			vAssert(err != nil, "type-error-prescribed")
		}
	case "-", "/", "%", "<", "<=", ">", ">=", "&", "|":
		vAssert(err != nil, "type-error-prescribed")
	case "==", "!=":
		vAssert(err == nil, "no-error-prescribed")
		if err == nil {
			got, ok := vm.Ret.ReadInt()
			eq := lk == rk // different kinds are never equal; equal kinds hold equal contents here
			vAssert(ok && (got == 1) == (eq == (op == "==")), "structural-equality")
		}
	case "&&", "||":
		truthy := lk >= 2 && lk != 4
		if lk == 0 {
			truthy = li != 0
		} else if lk == 1 {
			truthy = lf != 0
		}
		operand(truthy == (op == "||"))
	case "??":
		operand(lk != 4)
	}
}

// dice under min / max mode are deterministic: every die shows 1 / its side
// count, then the term's own min / max modifiers clamp it
var vC02DiceProgs = []struct{ src, min, max string }{
	{"d6min3 + d6", "4", "12"},
	{"d6 + d6min3", "4", "12"},
	{"[d20max1, d20, d20]", "[1, 1, 1]", "[1, 20, 20]"},
	{"2d6kh1 + 3d4", "4", "18"},
	{"3d4 + 2d6kl1", "4", "18"},
	{"d10max4 * 2 + 2d10", "4", "28"},
	{"(d4max2)d6", "1", "12"},
	{"d(d6min4)", "1", "6"},
	{"x = d8min5; y = d8; [x, y]", "[5, 1]", "[8, 8]"},
	{"func fn1() { d6min6 }; fn1() + d6", "7", "12"},
	{"&v1 = d6max1; v1 + d6", "2", "7"},
	{"`{d6min4}-{d6}`", "'4-1'", "'6-6'"},
	{"2d6dl1 + 2d6dh1", "2", "12"},
	{"d100min60 + 3d6 + d6max2", "64", "120"},
}

func init() {
	vHarnesses["VH_C02_dice"] = VH_C02_dice
}

//vh:prop=C02 tiers=quick,thorough sigkeys=prog,mode budget_s=600 bounds="14 programs with two or more dice terms (keep / drop / min / max modifiers, nested counts and sides, dice in functions, computed values, templates, arrays, assignments) under DiceMinMode and DiceMaxMode: the value is the one the dice rule prescribes with every die at 1 / at its side count and each term's own modifiers only; evaluated twice on the same VM"
func VH_C02_dice() {
	pr := vC02DiceProgs[vChoice("prog", len(vC02DiceProgs))]
	maxMode := vChoice("mode", 2) == 1
	vm := vNewVM()
	vm.Config.DiceMinMode = !maxMode
	vm.Config.DiceMaxMode = maxMode
	want := pr.min
	if maxMode {
		want = pr.max
	}
	for round := 0; round < 2; round++ {
		err := vm.Run(pr.src)
		vAssert(err == nil, "no-error-prescribed")
		if err != nil {
			return
		}
		vAssert(vm.RestInput == "", "program-consumed-entirely")
		vAssert(vm.Ret.ToRepr() == want, "value-as-prescribed-under-min/max-mode")
	}
	vReach("ran")
	vAssert(vDrawCount() == 0, "no-randomness-under-min/max-mode")
}
