//go:build verif

package dicescript

import "strings"

func init() {
	vHarnesses["VH_C02_pairs"] = VH_C02_pairs
}

// A reference evaluator for operator chains, transliterated from the
// expression layer of the published grammar (roll.peg, "越靠下的算符优先级越高"):
//
//	exprLogicOr  <- exprLogicAnd ("||" exprLogicAnd)*          short-circuit, yields an operand
//	exprLogicAnd <- exprBitwiseOr ("&&" exprBitwiseOr)*        both sides evaluated
//	exprBitwiseOr <- exprBitwiseAnd ("|" exprBitwiseAnd)*
//	exprBitwiseAnd <- exprCompare ("&" exprCompare)*
//	exprCompare  <- exprAdditive (cmp exprAdditive)*
//	exprAdditive <- exprMultiplicative (("+"|"-") exprMultiplicative)*
//	exprMultiplicative <- exprNullCoalescing (("*"|"/"|"%") exprExp)*
//	exprNullCoalescing <- exprExp ("??" exprExp)*
//	exprExp      <- unary                                      (** is outside: math.Pow)
//
// It works on a token list (operands are integers, possibly with a unary
// minus), not on text, and reports how many tokens the grammar consumes.
type vTok struct {
	op  string // "" for an operand
	neg bool
	v   int64
}

type vChain struct {
	toks []vTok
	pos  int
	err  bool // a run-time error is prescribed
	soft bool // the error arises only in the right operand of && whose left operand is false
	dead int  // >0: inside an operand that is not evaluated
}

func (p *vChain) peek() string {
	if p.pos < len(p.toks) {
		return p.toks[p.pos].op
	}
	return "$"
}

func (p *vChain) operand() int64 {
	t := p.toks[p.pos]
	p.pos++
	if t.neg {
		return -t.v
	}
	return t.v
}

func (p *vChain) fail(inAndRightOfFalse bool) {
	if p.dead > 0 || p.err {
		return
	}
	p.err = true
	p.soft = inAndRightOfFalse
}

func (p *vChain) nullco() int64 {
	l := p.operand()
	for p.peek() == "??" {
		p.pos++
		p.operand() // integers are never null: the left operand is the value
	}
	return l
}

func (p *vChain) mult() int64 {
	l := p.nullco()
	for {
		op := p.peek()
		if op != "*" && op != "/" && op != "%" {
			return l
		}
		p.pos++
		r := p.operand() // exprExp, not exprNullCoalescing
		if p.dead > 0 || p.err {
			continue
		}
		switch op {
		case "*":
			l = l * r
		case "/":
			if r == 0 {
				p.fail(false)
			} else {
				l = l / r // Go's truncated division; MinInt64 / -1 wraps
			}
		case "%":
			if r == 0 {
				p.fail(false)
			} else {
				l = l % r
			}
		}
	}
}

func (p *vChain) additive() int64 {
	l := p.mult()
	for {
		op := p.peek()
		if op != "+" && op != "-" {
			return l
		}
		p.pos++
		r := p.mult()
		if p.dead > 0 || p.err {
			continue
		}
		if op == "+" {
			l = l + r
		} else {
			l = l - r
		}
	}
}

func (p *vChain) compare() int64 {
	l := p.additive()
	for {
		op := p.peek()
		if op != "<" && op != "<=" && op != "==" && op != "!=" && op != ">=" && op != ">" {
			return l
		}
		p.pos++
		r := p.additive()
		if p.dead > 0 || p.err {
			continue
		}
		switch op {
		case "<":
			l = b2i(l < r)
		case "<=":
			l = b2i(l <= r)
		case "==":
			l = b2i(l == r)
		case "!=":
			l = b2i(l != r)
		case ">=":
			l = b2i(l >= r)
		case ">":
			l = b2i(l > r)
		}
	}
}

func (p *vChain) bitAnd() int64 {
	l := p.compare()
	for p.peek() == "&" {
		p.pos++
		r := p.compare()
		if p.dead > 0 || p.err {
			continue
		}
		l = l & r
	}
	return l
}

func (p *vChain) bitOr() int64 {
	l := p.bitAnd()
	for p.peek() == "|" {
		p.pos++
		r := p.bitAnd()
		if p.dead > 0 || p.err {
			continue
		}
		l = l | r
	}
	return l
}

func (p *vChain) logicAnd() int64 {
	l := p.bitOr()
	for p.peek() == "&&" {
		p.pos++
		if p.dead > 0 || p.err {
			p.bitOr()
			continue
		}
		if l == 0 {
			// value is the left operand; whether the right one is evaluated is
			// not documented: an error that arises only there is not asserted
			had := p.err
			r := p.bitOr()
			_ = r
			if !had && p.err {
				p.soft = true
			}
			continue
		}
		l = p.bitOr()
	}
	return l
}

func (p *vChain) logicOr() int64 {
	l := p.logicAnd()
	for p.peek() == "||" {
		p.pos++
		if p.dead > 0 || p.err {
			p.logicAnd()
			continue
		}
		if l != 0 {
			p.dead++
			p.logicAnd()
			p.dead--
			continue
		}
		l = p.logicAnd()
	}
	return l
}

var vC02ChainOps = []string{"+", "-", "*", "/", "%", "==", "!=", "<", "<=", ">", ">=", "&", "|", "&&", "||", "??"}

// operand spellings: plain variable, negated variable, parenthesised variable
var vC02Spell = []string{"%s", "-%s", "(%s)"}

//vh:prop=C02 tiers=quick,thorough sigkeys=op1,op2,op3,neg,ws unwind=8 budget_s=1500 thorough:P.tierdeep=1 bounds="operator chains 'a op1 b op2 c' (quick: all 256 ordered pairs of the sixteen binary operators; thorough: all 4096 triples 'a op1 b op2 c op3 d'), operands are variables holding 64-bit solver symbols, each optionally negated, written with and without blanks; the reference is a token-level transliteration of the published grammar's expression layers (roll.peg) with the documented run-time rules; value, error and the text left unconsumed are compared; second evaluation on the same VM; ** is excluded (math.Pow uninterpreted)"
func VH_C02_pairs() {
	nops := 2
	if vParam("tierdeep", 0) == 1 {
		nops = 3
	}
	names := []string{"xx", "yy", "zz", "ww"}
	vals := []int64{vInt64("a"), vInt64("b"), vInt64("c"), 0}
	if nops == 3 {
		vals[3] = vInt64("d")
	}
	ops := make([]string, nops)
	ops[0] = vC02ChainOps[vChoice("op1", len(vC02ChainOps))]
	ops[1] = vC02ChainOps[vChoice("op2", len(vC02ChainOps))]
	if nops == 3 {
		ops[2] = vC02ChainOps[vChoice("op3", len(vC02ChainOps))]
	}
	// which of the first two right-hand operands carries a unary minus (quick: none or both)
	negMask := 0
	if nops == 3 {
		negMask = vChoice("neg", 4)
	} else {
		negMask = 3 * vChoice("neg", 2)
	}
	ws := vChoice("ws", 2)
	sep := " "
	if ws == 1 {
		sep = ""
	}
	var toks []vTok
	var sb strings.Builder
	var parts []string
	for i := 0; i <= nops; i++ {
		neg := i >= 1 && i <= 2 && negMask&(1<<(i-1)) != 0
		if i > 0 {
			toks = append(toks, vTok{op: ops[i-1]})
			parts = append(parts, ops[i-1])
		}
		toks = append(toks, vTok{neg: neg, v: vals[i]})
		if neg {
			parts = append(parts, "-"+names[i])
		} else {
			parts = append(parts, names[i])
		}
	}
	for i, s := range parts {
		if i > 0 {
			// without blanks some spellings change the tokens ("a--b" is fine, "a&&&b", "a|-b" too,
			// but "a<-b" etc. stay two tokens); only '&' '|' next to '&&' '||' and '?' runs are ambiguous
			sb.WriteString(sep)
		}
		sb.WriteString(s)
	}
	src := sb.String()
	if ws == 1 {
		// skip spellings whose token boundaries are ambiguous without blanks
		for _, o := range ops {
			if o == "&" || o == "|" || o == "&&" || o == "||" || o == "??" {
				return
			}
		}
	}
	ref := &vChain{toks: toks}
	want := ref.logicOr()
	restToks := ref.pos

	vm := vNewVM()
	for round := 0; round < 2; round++ {
		for i := 0; i <= nops; i++ {
			vm.Attrs.Store(names[i], NewIntVal(IntType(vals[i])))
		}
		err := vm.Run(src)
		if ref.err {
			if !ref.soft {
				vAssert(err != nil, "error-prescribed")
			}
			continue
		}
		vAssert(err == nil, "no-error-prescribed")
		if err != nil {
			return
		}
		// text the grammar leaves unconsumed
		wantRest := ""
		for i := restToks; i < len(parts); i++ {
			wantRest += parts[i]
		}
		gotRest := strings.ReplaceAll(vm.RestInput, " ", "")
		vAssert(gotRest == wantRest, "consumed-text-as-the-grammar-prescribes")
		got, isInt := vm.Ret.ReadInt()
		vAssert(isInt, "integer-result-prescribed")
		vAssert(int64(got) == want, "value-as-prescribed")
	}
	vReach("ran")
}
