//go:build verif

package dicescript

import "strings"

func init() {
	vHarnesses["VH_C14_expr"] = VH_C14_expr
}

// arithmetic over dice terms, with spacing / line-break / identifier variants
var vC14Progs = []string{
	"2d6 + 3", "(2d6+1)*2", "d20 - 2d4", "3d6kh2 * 2 + 1", "2d6kl1+2d6dh1", "4d6dl1 - 1", "2d6\n+ 1", " 2d6 +\t4 ",
	"力量 + d6", "d6 + 力量 * 2", "(d4 + d6) * (d8 - 1)", "2d6 + 3d4 + d8 + 1", "10 - d6 - d6", "2 * d6 * 3",
	"b2 + 1", "p1 - 1", "f + 10", "2a10 + 1", "2c8 + 2", "d6优势 + 1", "2d6min3 + 1", "2d6max3 + 1", "((2d6))", "1 + (2 + (d6 + 3))",
	"(2d4)d6 + 1", "d(d6) + 2", "(d4)d(d4)k1 * 2", "2d3d4 + 1", "d4d6d8", "(2d3)d4d5 - 1", "2d3d4kh2 * 2",
	"4d6dl5 + 1", "2d10dh3 * 2", "3d6kh4 - 1", "3d6dl3", "2d6kl2 + 2d6dh1",
}

// follow-up texts without dice (their process text does not depend on draws)
var vC14Next = []string{"1 + 2", "7", "力量 + 1", "(1 + 2) * 3 - 力量"}

// vC14Eval evaluates the arithmetic in a skeleton (numbers replaced by '#')
// taking the values from ints in order.
type vC14P struct {
	s    string
	i    int
	ints []int64
	k    int
	bad  bool
}

func (p *vC14P) ws() {
	for p.i < len(p.s) && (p.s[p.i] == ' ' || p.s[p.i] == '\t' || p.s[p.i] == '\n') {
		p.i++
	}
}

func (p *vC14P) atom() int64 {
	p.ws()
	if p.i >= len(p.s) {
		p.bad = true
		return 0
	}
	switch p.s[p.i] {
	case '(':
		p.i++
		v := p.sum()
		p.ws()
		if p.i < len(p.s) && p.s[p.i] == ')' {
			p.i++
		} else {
			p.bad = true
		}
		return v
	case '#':
		p.i++
		if p.k >= len(p.ints) {
			p.bad = true
			return 0
		}
		v := p.ints[p.k]
		p.k++
		return v
	case '-':
		p.i++
		return -p.atom()
	}
	p.bad = true
	return 0
}

func (p *vC14P) prod() int64 {
	v := p.atom()
	for {
		p.ws()
		if p.i < len(p.s) && p.s[p.i] == '*' {
			p.i++
			v *= p.atom()
			continue
		}
		return v
	}
}

func (p *vC14P) sum() int64 {
	v := p.prod()
	for {
		p.ws()
		if p.i < len(p.s) && p.s[p.i] == '+' {
			p.i++
			v += p.prod()
			continue
		}
		if p.i < len(p.s) && p.s[p.i] == '-' {
			p.i++
			v -= p.prod()
			continue
		}
		return v
	}
}

//vh:prop=C14 tiers=quick,thorough sigkeys=prog,next summaries=Roll:roll-contract solver=z3-new/int unwind=10 unwind_ok=1 budget_s=1800 bounds="36 expressions over + - * ( ) with integer literals, a multi-byte identifier bound to a symbolic integer (|v| <= 2^20), and dice terms of every family (XdY with keep/drop/min/max/advantage, CoC, Fate, WoD, Double Cross) whose dice are symbolic Roll-contract values, with spaces, tabs and line breaks: deleting the [..] annotations from the process text leaves an arithmetic expression that evaluates to the result; every XdY annotation's value is the sum of the kept dice it lists; GetDetailText is idempotent and leaves result, variables and generator log unchanged; one of 4 dice-free texts evaluated next on the same VM gets the process text it gets on a fresh VM"
func VH_C14_expr() {
	k := vChoice("prog", len(vC14Progs))
	vm := vSeededVM()
	str := vInt64("str")
	vAssume(str >= -(1 << 20))
	vAssume(str <= 1<<20)
	vm.Attrs.Store("力量", NewIntVal(IntType(str)))
	err := vm.Run(vC14Progs[k])
	vReach("ran")
	vAssert(err == nil, "expression-evaluates")
	if err != nil {
		return
	}
	ret, ok := vm.Ret.ReadInt()
	vAssert(ok, "integer-result")
	draws := vDrawCount()
	attrs := vAttrsString(vm)
	detail := vm.GetDetailText()
	vObserve("detail", detail)
	// observing is harmless
	vAssert(vm.GetDetailText() == detail, "process-text-is-idempotent")
	r2, _ := vm.Ret.ReadInt()
	vAssert(r2 == ret, "result-unchanged-by-observing")
	vAssert(vDrawCount() == draws, "generator-unchanged-by-observing")
	vAssert(vAttrsString(vm) == attrs, "variables-unchanged-by-observing")
	// the next text evaluated on the same VM is explained on its own terms
	// (no span of this run survives into it)
	next := vC14Next[vChoice("next", len(vC14Next))]
	fresh := vSeededVM()
	fresh.Attrs.Store("力量", NewIntVal(IntType(str)))
	_ = fresh.Run(next)
	freshDetail := fresh.GetDetailText()
	e2 := vm.Run(next)
	vAssert(e2 == nil, "next-expression-evaluates")
	vAssert(vm.GetDetailText() == freshDetail, "next-evaluation's-process-text-is-its-own")
	if detail == "" {
		return // nothing to explain (the text equals the result)
	}
	skel := vStrSkel(detail)
	ints := vStrInts(detail)
	// split into the expression outside the annotations and the annotations
	var outside strings.Builder
	var outInts []int64
	depth, ki := 0, 0
	annStart, annK := -1, 0
	var annLead int64
	haveLead := false
	for i := 0; i < len(skel); i++ {
		c := skel[i]
		switch {
		case c == '[':
			if depth == 0 {
				annStart, annK = i, ki
			}
			depth++
		case c == ']':
			depth--
			if depth == 0 && annStart >= 0 && haveLead {
				vC14CheckAnnotation(skel[annStart+1:i], ints[annK:ki], annLead)
			}
		case c == '#':
			if depth == 0 {
				outside.WriteByte('#')
				outInts = append(outInts, ints[ki])
				annLead, haveLead = ints[ki], true
			}
			ki++
		default:
			if depth == 0 {
				if c >= 0x80 || (c >= 'a' && c <= 'z') || (c >= 'A' && c <= 'Z') {
					continue // identifier text that stays in front of its [..] annotation
				}
				outside.WriteByte(c)
			}
		}
	}
	p := &vC14P{s: outside.String(), ints: outInts}
	val := p.sum()
	p.ws()
	vAssert(!p.bad && p.i == len(p.s), "text-without-annotations-is-an-arithmetic-expression: "+outside.String())
	if !p.bad {
		vAssert(val == int64(ret), "text-without-annotations-evaluates-to-the-result")
	}
	_ = ints
}

// an XdY annotation "expr=d+d+d" or "expr={d d | d}": the value in front of
// the bracket is the sum of the kept dice
func vC14CheckAnnotation(body string, ints []int64, lead int64) {
	// the first comma-separated piece is the term itself, later pieces are
	// sub-terms ("(2d4)d6=4+6,2d4=2"); only the term itself is interpreted
	if c := strings.Index(body, ","); c >= 0 {
		body = body[:c]
		ints = ints[:strings.Count(body, "#")]
	}
	// only annotations of the two plain shapes are interpreted; others make no claim
	eq := strings.LastIndex(body, "=")
	if eq < 0 {
		return
	}
	if !strings.ContainsAny(body[:eq], "dD") || strings.ContainsAny(body[:eq], "fFbBpPaAcC") {
		return // only XdY terms list their dice as numbers
	}
	list := body[eq+1:]
	for i := 0; i < len(list); i++ {
		c := list[i]
		if c != '#' && c != '+' && c != ' ' && c != '{' && c != '}' && c != '|' {
			return
		}
	}
	n := strings.Count(list, "#")
	if n == 0 || n > len(ints) {
		return
	}
	dice := ints[len(ints)-n:]
	kept := n
	if bar := strings.Index(list, "|"); bar >= 0 {
		kept = strings.Count(list[:bar], "#")
	}
	sum := int64(0)
	for i := 0; i < kept; i++ {
		sum += dice[i]
	}
	vAssert(sum == lead, "annotation-value-is-the-total-of-the-dice-it-lists")
}
