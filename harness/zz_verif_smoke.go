//go:build verif

package dicescript

func init() {
	vHarnesses["VH_SMOKE_run"] = VH_SMOKE_run
}

var vSmokePrograms = []string{
	"1+2*3",
	"[1,2,3].sum() + {'a':1}.a",
	"a = 5; if a > 3 { a = a * 2 } else { a = 0 }; a",
	"i = 0; while i < 5 { i = i + 1; if i == 3 { continue } }; i",
	"func f(x) { return x * 2 }; f(21)",
	"`x{1+1}y{% 2 %}z`",
	"&c = 1 + 2; c",
	"'abc'[1] + \"x\" + toStr(12) + toStr(toInt('5'))",
	"ceil(1.5) + floor(2.5) + round(2.4) + abs(-2)",
	"1 + ",
	"[1,2,3][0:2]",
	"2d6kh1",
}

//vh:prop=SMOKE tiers=quick samples=20 bounds="concrete smoke programs"
func VH_SMOKE_run() {
	k := vChoice("prog", len(vSmokePrograms))
	vm := NewVM()
	vm.Config.DiceMinMode = true
	vm.Config.EnableDiceWoD = true
	vm.Config.EnableDiceCoC = true
	vm.Config.EnableDiceFate = true
	vm.Config.EnableDiceDoubleCross = true
	err := vm.Run(vSmokePrograms[k])
	if err != nil {
		vObserve("err", err.Error())
	} else {
		vObserve("ret", vm.Ret.ToString())
		vObserve("detail", vm.GetDetailText())
		vObserve("rest", vm.RestInput)
	}
	vObserve("asm", vm.GetAsmText())
}
