//go:build verif

package dicescript

import "strings"

func init() {
	vHarnesses["VH_C07_budget"] = VH_C07_budget
	vHarnesses["VH_C07_count"] = VH_C07_count
	vHarnesses["VH_C07_cap"] = VH_C07_cap
	vHarnesses["VH_C07_exact"] = VH_C07_exact
}

// adversarial programs: each must return (error or value) after work
// proportional to the operation budget
var vC07Progs = []string{
	"while 1 { }",
	"i = 0; while 1 { i = i + 1 }",
	"func fn1() { fn1() }; fn1()",
	"func fn1(n) { return fn1(n + 1) + fn1(n + 2) }; fn1(0)",
	"&v1 = v1 + 1; v1",
	"100000000d6",
	"999d9999d999",
	"v1 = [1]; while 1 { v1 = v1 + v1 }",
	"v1 = [1,2,3]; while 1 { v1 = v1 * 2 }",
	"v1 = 's'; i = 0; while i < 22 { v1 = v1 + v1; i = i + 1 }; 1",
	"[1..100000000]",
	"b100000000",
	"20000a2m1",
	"1a2",
	"3c2",
	"i = 0; while i < 100000 { i = i + 1; [1,2,3].sum() }",
	"`{% i = 0; while 1 { i = i + 1 } %}`",
	"9223372036854775807d6",
	"9223372036854775800d6 + 9223372036854775800d6",
	"b9223372036854775807",
	"&v1 = 5000d1; func fn1() { v1 }; i = 0; while i < 100 { fn1(); i = i + 1 }",
	// work done by the host's default-sides expression (prefix #def=...#)
	"#def=7000d1#i = 0; while i < 10 { i = i + 1; d }",
	"#def=v1 ?? 100#&v1 = 9000d1; i = 0; while i < 5 { i = i + 1; 2d }",
}

// vC07Src strips a "#def=EXPR#" prefix and installs EXPR as the VM's
// default-sides expression.
func vC07Src(vm *Context, src string) string {
	if strings.HasPrefix(src, "#def=") {
		rest := src[len("#def="):]
		k := strings.Index(rest, "#")
		vm.Config.DefaultDiceSideExpr = rest[:k]
		return rest[k+1:]
	}
	return src
}

//vh:prop=C07 tiers=quick,thorough sigkeys=prog,dicemode summaries=Roll:roll-log maxsteps=120000000 hang_is_violation=1 budget_s=1500 bounds="23 adversarial programs (endless loops, unbounded and exponential recursion, self-referential computed value, huge dice counts incl. counts that overflow the counter, a function that reads a costly computed value in a loop, doubling arrays and strings, huge range, exploding WoD / Double Cross pools, costly default-sides expressions) under op budgets {200, 30000} and dice modes {random with low faces, min, max}: evaluation must end within 120M interpreter steps (else: hang, confirmed natively with a timeout); when it ends without error the counter and the number of dice rolled are within the budget, and with an error the dice rolled exceed the budget by at most one batch"
func VH_C07_budget() {
	k := vParam("prog", -1)
	if k < 0 {
		k = vChoice("prog", len(vC07Progs))
	}
	vm := vSeededVM()
	budget := []IntType{200, 30000}[vChoice("budget", 2)]
	vm.Config.OpCountLimit = budget
	switch vChoice("dicemode", 3) {
	case 1:
		vm.Config.DiceMinMode = true
	case 2:
		vm.Config.DiceMaxMode = true
	}
	err := vm.Run(vC07Src(vm, vC07Progs[k]))
	vReach("returned")
	if err == nil {
		vAssert(vm.NumOpCount <= budget, "no-error-implies-counter-within-budget")
		// every die costs at least one unit: a run that stayed within the
		// budget cannot have rolled more dice than the budget
		vAssert(vDrawCount() <= int(budget), "no-error-implies-dice-rolled-within-budget")
	} else {
		// the run is stopped soon after the budget is exhausted: a single
		// instruction may roll at most one batch (<= 20000 dice) beyond it
		vAssert(vDrawCount() <= int(budget)+20000+1, "dice-rolled-bounded-by-budget")
	}
}

// every instruction executed and every die rolled is counted
var vC07CountProgs = []string{
	"1+2*3", "[1,2,3].sum()", "3d6", "2d6kh1", "b2", "p3", "b(0-5)", "f", "3a8", "2c8", "x = 5; x + 1", "'a' + 'b'", "[1,2,3][1]", "{'k':1}.k",
	"#def=3d1 + 2#2d + d", "#def=v1#&v1 = 4d1; d + d", "func fn1() { 3d6 }; fn1() + fn1()", "&v1 = 2d4; v1 + v1",
}

//vh:prop=C07 tiers=quick,thorough sigkeys=prog summaries=Roll:roll-log budget_s=600 bounds="18 straight-line programs (no loops; incl. dice inside functions, computed values and the default-sides expression): after evaluation the operation counter is at least the number of instructions of the compiled program plus the number of dice rolled (generator outputs consumed), and never negative"
func VH_C07_count() {
	k := vChoice("prog", len(vC07CountProgs))
	vm := vSeededVM()
	vm.Config.OpCountLimit = 30000
	err := vm.Run(vC07Src(vm, vC07CountProgs[k]))
	vReach("returned")
	vAssert(vm.NumOpCount >= 0, "counter-never-negative")
	if err != nil {
		return
	}
	vAssert(int(vm.NumOpCount) >= vm.codeIndex, "counter-covers-every-instruction")
	vAssert(int(vm.NumOpCount) >= vm.codeIndex-1+vDrawCount(), "counter-covers-every-die")
}

//vh:prop=C07 tiers=quick,thorough sigkeys=kind,n maxsteps=1200000000 maxdepth=100000 budget_s=2400 thorough:P.ondemand=1 bounds="capacity boundaries as concrete programs: sums of n terms around the 8192-instruction limit (n = 4094..4098) at top level, inside a function body, inside a computed value, and as source compiled on demand (host-built computed / function values, a JSON-decoded computed value, the default-sides expression, RunExpr) evaluated twice through the same value (quick: the two computed-value forms just over the limit), array literals and ranges of 511..513 elements, concatenation and repetition across 512, operand stack across 1000 (array literals of 997..1001 elements), parse budget 10/100 on short programs: each is either evaluated completely (the value is the full program's value) or rejected with an error - never a value from a truncated program"
func VH_C07_cap() {
	kind := vParam("kind", -1)
	if kind < 0 {
		kind = vChoice("kind", 14)
	}
	vm := vNewVM()
	vm.Config.OpCountLimit = 10000000
	switch kind {
	case 0: // code size
		n := 4094 + vChoice("n", 5)
		err := vm.Run("1" + strings.Repeat("+1", n))
		if err == nil {
			v, ok := vm.Ret.ReadInt()
			vAssert(ok && int(v) == n+1, "long-sum-complete-or-rejected")
			vAssert(vm.RestInput == "", "long-sum-consumed")
		}
	case 1: // array literal
		n := 511 + vChoice("n", 3)
		err := vm.Run("[" + strings.Repeat("1,", n-1) + "1].len()")
		if err == nil {
			v, ok := vm.Ret.ReadInt()
			vAssert(ok && int(v) == n, "array-literal-complete-or-rejected")
		}
	case 2: // range
		n := 511 + vChoice("n", 3)
		vm.Attrs.Store("n", NewIntVal(IntType(n)))
		err := vm.Run("[1..n].len()")
		if err == nil {
			v, ok := vm.Ret.ReadInt()
			vAssert(ok && int(v) == n, "range-complete-or-rejected")
		}
	case 3: // concat
		n := 255 + vChoice("n", 3)
		vm.Attrs.Store("n", NewIntVal(IntType(n)))
		err := vm.Run("v1 = [1..n]; (v1 + v1).len()")
		if err == nil {
			v, ok := vm.Ret.ReadInt()
			vAssert(ok && int(v) == 2*n, "concat-complete-or-rejected")
		}
	case 4: // repeat
		n := 255 + vChoice("n", 3)
		vm.Attrs.Store("n", NewIntVal(IntType(n)))
		err := vm.Run("([1,2] * n).len()")
		if err == nil {
			v, ok := vm.Ret.ReadInt()
			vAssert(ok && int(v) == 2*n, "repeat-complete-or-rejected")
		}
	case 5: // operand stack (1000 slots): a literal pushes all its elements first
		n := 997 + vChoice("n", 5)
		err := vm.Run("[" + strings.Repeat("1,", n-1) + "1].len()")
		if err == nil {
			v, ok := vm.Ret.ReadInt()
			vAssert(ok && int(v) == n, "wide-literal-complete-or-rejected")
		}
	case 7: // code size inside a function body
		n := 4095 + vChoice("n", 3)
		err := vm.Run("func fn1() { 1" + strings.Repeat("+1", n) + " }; fn1()")
		if err == nil {
			v, ok := vm.Ret.ReadInt()
			vAssert(ok && int(v) == n+1, "long-function-body-complete-or-rejected")
		}
	case 8: // code size inside a computed value
		n := 4095 + vChoice("n", 3)
		err := vm.Run("&v1 = 1" + strings.Repeat("+1", n) + "; v1")
		if err == nil {
			v, ok := vm.Ret.ReadInt()
			vAssert(ok && int(v) == n+1, "long-computed-body-complete-or-rejected")
		}
	case 9, 10, 11, 12, 13: // code size of source that is compiled on demand, evaluated repeatedly through the same value
		n := 4097 // over the limit; thorough also 4095 (fits) and 4096
		if vParam("ondemand", 0) == 1 {
			n = 4095 + vChoice("n", 3)
		} else if kind != 9 && kind != 13 {
			return // quick: the computed-value forms only (each evaluation parses 8 k characters)
		}
		long := "1" + strings.Repeat("+1", n)
		run := func() (*VMValue, error) { err := vm.Run("v1"); return vm.Ret, err }
		switch kind {
		case 9:
			vm.Attrs.Store("v1", NewComputedVal(long))
		case 10:
			vm.Attrs.Store("fn2", NewFunctionValRaw(&FunctionData{Expr: long, Name: "fn2"}))
			run = func() (*VMValue, error) { err := vm.Run("fn2()"); return vm.Ret, err }
		case 11:
			vm.Config.DefaultDiceSideExpr = long
			vm.Config.DiceMaxMode = true
			run = func() (*VMValue, error) { err := vm.Run("d"); return vm.Ret, err }
		case 12:
			run = func() (*VMValue, error) { return vm.RunExpr(long, false) }
		case 13:
			v, err := VMValueFromJSON([]byte(`{"t":5,"v":{"expr":"` + long + `"}}`))
			vAssert(err == nil && v != nil, "computed-value-document-decodes")
			if err != nil || v == nil {
				return
			}
			vm.Attrs.Store("v1", v)
		}
		for round := 0; round < 2; round++ {
			v, err := run()
			if err == nil {
				iv, ok := v.ReadInt()
				vAssert(ok && int(iv) == n+1, "long-on-demand-body-complete-or-rejected")
			}
		}
	case 6: // parse budget
		vm.Config.ParseExprLimit = []uint64{10, 100, 1000}[vChoice("n", 3)]
		err := vm.Run("1+2+3+4")
		if err == nil {
			v, ok := vm.Ret.ReadInt()
			vAssert(ok && v == 10, "parse-budget-complete-or-rejected")
		}
	}
	vReach("returned")
}

// programs of known finite cost: (source, nesting depth of script calls)
var vC07ExactProgs = []struct {
	src   string
	depth int
}{
	{"1 + 2 * 3 - 4", 0},
	{"i = 0; while i < 6 { i = i + 1 }; i", 0},
	{"3d6 + 2d20kh1 + d100", 0},
	{"func fn1(n) { return n * 2 }; fn1(3) + fn1(4)", 1},
	{"&v1 = 2d6 + 1; v1 + v1", 1},
	{"func fn1(n) { if n > 0 { return fn1(n - 1) + 1 }; return 0 }; fn1(3)", 4},
	{"func fn1() { &v2 = 3d1; return v2 + v2 }; fn1() + 1", 2},
	{"[1,2,3].sum() + [4,5].len()", 0},
	{"`a{1 + 1}b{% x = 2; x * 2 %}`", 0},
	{"i = 0; s = 0; while i < 3 { i = i + 1; j = 0; while j < 2 { j = j + 1; s = s + d6 } }; s", 0},
	{"2a10 + 3c8 + f + b1", 0},
	{"x = {'a': [1, 2]}; x.a[1] + x.a.len()", 0},
}

//vh:prop=C07 tiers=quick,thorough sigkeys=prog budget_s=1200 unwind=4000 unwind_ok=1 bounds="12 programs of finite cost K (measured by an unlimited run: 7..200 operations; arithmetic, loops, dice of every family in min mode, functions, recursion 4 deep, computed values, templates, containers) re-run with the operation budget L a 64-bit symbol in [1, K + 100*(call depth) + 2]: for every L the run either fails with an error - only if L < K + 100*(call depth), the transient surcharge of nested calls - or succeeds - only if L >= K - with exactly the value of the unlimited run and never a different (partial) one"
func VH_C07_exact() {
	k := vChoice("prog", len(vC07ExactProgs))
	pr := vC07ExactProgs[k]
	mk := func() *Context {
		vm := vNewVM()
		vm.Config.DiceMinMode = true
		vm.Config.EnableDiceWoD, vm.Config.EnableDiceCoC, vm.Config.EnableDiceFate, vm.Config.EnableDiceDoubleCross = true, true, true, true
		return vm
	}
	ref := mk()
	ref.Config.OpCountLimit = 0
	err0 := ref.Run(pr.src)
	vAssert(err0 == nil, "program-evaluates-without-budget")
	if err0 != nil {
		return
	}
	cost := int64(ref.NumOpCount)
	want := ref.Ret.ToRepr()
	vAssert(cost >= 1, "work-is-counted")
	slack := int64(100 * pr.depth)
	lim := vInt64("limit")
	vAssume(lim >= 1)
	vAssume(lim <= cost+slack+2)
	vm := mk()
	vm.Config.OpCountLimit = IntType(lim)
	err := vm.Run(pr.src)
	vReach("ran")
	if err != nil {
		vAssert(lim < cost+slack, "a-budget-that-covers-the-work-is-not-refused")
		return
	}
	vAssert(lim >= cost, "work-beyond-the-budget-fails")
	vAssert(vm.Ret != nil && vm.Ret.ToRepr() == want, "value-under-a-budget-is-the-complete-value")
	vAssert(int64(vm.NumOpCount) == cost, "same-work-counted")
}
