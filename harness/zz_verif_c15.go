//go:build verif

package dicescript

import "golang.org/x/exp/rand"

func init() {
	vHarnesses["VH_C15_common"] = VH_C15_common
	vHarnesses["VH_C15_coc_fate"] = VH_C15_coc_fate
	vHarnesses["VH_C15_vm"] = VH_C15_vm
}

//vh:prop=C15 tiers=quick,thorough solver=z3-new/int summaries=Roll:roll-contract unwind=12 quick:P.maxTimes=3 thorough:P.maxTimes=4 bounds="RollCommon under modes -1/0/+1 with identical parameters: times in 1..maxTimes, 1<=sides<=2^40, counts/min/max within +-2^40, min<=max when both given; random dice are Roll's contract values"
func VH_C15_common() {
	src := &rand.PCGSource{}
	times := 1 + vChoice("times", vParam("maxTimes", 3))
	sides := vInt64("sides")
	vAssume(sides >= 1)
	vAssume(sides <= 1<<40)
	lh := vChoice("keepmode", 5)
	var low, high int64
	if lh == 1 || lh == 3 {
		low = vInt64("low")
		vAssume(low >= -(1 << 40))
		vAssume(low <= 1<<40)
	}
	if lh == 2 || lh == 4 {
		high = vInt64("high")
		vAssume(high >= -(1 << 40))
		vAssume(high <= 1<<40)
	}
	var pmin, pmax *IntType
	var dmin, dmax int64
	mm := vChoice("minmax", 4)
	if mm&1 != 0 {
		dmin = vInt64("min")
		vAssume(dmin >= -(1 << 40))
		vAssume(dmin <= 1<<40)
		x := IntType(dmin)
		pmin = &x
	}
	if mm&2 != 0 {
		dmax = vInt64("max")
		vAssume(dmax >= -(1 << 40))
		vAssume(dmax <= 1<<40)
		x := IntType(dmax)
		pmax = &x
	}
	if mm == 3 {
		vAssume(dmin <= dmax)
	}
	lo, _ := RollCommon(src, IntType(times), IntType(sides), pmin, pmax, IntType(lh), IntType(low), IntType(high), -1)
	vAssert(vDrawCount() == 0, "min-mode-consumes-no-randomness")
	hi, _ := RollCommon(src, IntType(times), IntType(sides), pmin, pmax, IntType(lh), IntType(low), IntType(high), 1)
	vAssert(vDrawCount() == 0, "max-mode-consumes-no-randomness")
	vAssert(vGlobalRandUses() == 0, "no-global-generator")
	mid, _ := RollCommon(src, IntType(times), IntType(sides), pmin, pmax, IntType(lh), IntType(low), IntType(high), 0)
	vReach("rolled")
	vObserve("lo", lo)
	vObserve("mid", mid)
	vObserve("hi", hi)
	vAssert(lo <= mid, "min-mode-is-a-lower-bound")
	vAssert(mid <= hi, "max-mode-is-an-upper-bound")
	// attainment: bounds are what all-lowest / all-highest faces give
	clamp := func(d int64) int64 {
		if mm&2 != 0 {
			d = vIteInt64(d > dmax, dmax, d)
		}
		if mm&1 != 0 {
			d = vIteInt64(d < dmin, dmin, d)
		}
		return d
	}
	var keep int64 = int64(times)
	switch lh {
	case 1:
		keep = low
	case 2:
		keep = high
	case 3:
		keep = int64(times) - low
	case 4:
		keep = int64(times) - high
	}
	keep = vIteInt64(keep < 0, 0, keep)
	keep = vIteInt64(keep > int64(times), int64(times), keep)
	var wantLo, wantHi int64
	for i := 0; i < times; i++ {
		wantLo += vIteInt64(int64(i) < keep, clamp(1), 0)
		wantHi += vIteInt64(int64(i) < keep, clamp(sides), 0)
	}
	vAssert(int64(lo) == wantLo, "min-mode-attained-by-all-lowest-faces")
	vAssert(int64(hi) == wantHi, "max-mode-attained-by-all-highest-faces")
}

//vh:prop=C15 tiers=quick,thorough summaries=Roll:roll-contract unwind=40 quick:P.maxK=2 thorough:P.maxK=3 bounds="RollCoC (bonus/penalty, k in 0..maxK) and RollFate under modes -1/0/+1"
func VH_C15_coc_fate() {
	src := &rand.PCGSource{}
	if vChoice("family", 2) == 0 {
		lo, _ := RollFate(src, -1)
		hi, _ := RollFate(src, 1)
		vAssert(vDrawCount() == 0, "min/max-mode-consume-no-randomness")
		mid, _ := RollFate(src, 0)
		vAssert(vAnd(lo <= mid, mid <= hi), "fate-bracketed")
		vAssert(vAnd(lo == -4, hi == 4), "fate-bounds-attained")
		return
	}
	k := vChoice("k", vParam("maxK", 2)+1)
	bonus := vChoice("bonus", 2) == 1
	lo, _ := RollCoC(src, bonus, IntType(k), -1)
	hi, _ := RollCoC(src, bonus, IntType(k), 1)
	vAssert(vDrawCount() == 0, "min/max-mode-consume-no-randomness")
	mid, _ := RollCoC(src, bonus, IntType(k), 0)
	vObserve("lo", lo)
	vObserve("mid", mid)
	vObserve("hi", hi)
	vAssert(lo <= mid, "coc-min-mode-is-a-lower-bound")
	vAssert(mid <= hi, "coc-max-mode-is-an-upper-bound")
}

// expressions monotone in their dice, through the VM, incl. dice rolled
// inside functions, computed values, loops and the default-sides expression
var vC15Progs = []struct {
	src      string
	defSides string
	lo, hi   int64 // bounds, attained for XdY terms
}{
	{"2d6 + 3", "", 5, 15},
	{"3d6kh2 * 2", "", 4, 24},
	{"4d6k3min2 + d4 * 3", "", 9, 30},
	{"func fn1() { 2d6 }; fn1() + 1", "", 3, 13},
	{"&v1 = 2d6 + 1; v1 + v1", "", 6, 26},
	{"func fn1() { 2d6 }; &v1 = fn1() + d4; v1", "", 3, 16},
	{"func fn1(n) { n + d8 }; fn1(d4)", "", 2, 12},
	{"func fn1() { 2d6 }; func fn2() { fn1() + fn1() }; fn2()", "", 4, 24},
	{"f + 5", "", 1, 9},
	{"i = 0; v1 = 0; while i < 2 { i = i + 1; v1 = v1 + d6 }; v1", "", 2, 12},
	{"1 ? 2d6 : 3", "", 2, 12},
	{"(d3)d(d4)", "", 1, 12},
	{"d + d", "d4 + 2", 2, 12},
	{"func fn1() { d }; fn1() + d", "2d3", 2, 12},
	{"&v1 = d6; func fn1() { v1 + v1 }; fn1()", "", 2, 12},
	// a default-sides expression that depends on state changed between two bare dice
	{"sides = 4; v1 = 2d; sides = 20; v1 + 2d", "sides ?? 100", 4, 48},
	{"v1 = d; sides = 3; v1 + d + d", "sides ?? 10", 3, 16},
	{"sides = 6; func fn1() { sides = 2; d }; d + fn1() + d", "sides ?? 8", 3, 14},
	{"d20min5 + d20 + d6max3", "", 7, 43},
}

//vh:prop=C15 tiers=quick,thorough sigkeys=prog,parse-once solver=z3-new/int summaries=Roll:roll-contract unwind=24 unwind_ok=1 budget_s=1200 bounds="19 programs whose value is monotone in its dice (sums and products with non-negative constants of XdY with keep/min modifiers, Fate, nested dice counts), with the dice at top level, inside functions (also nested and called from computed values), computed values, a loop, a conditional and the default-sides expression: the min-mode and max-mode runs consume no generator output, leave the generator state unchanged and give the expected attained bounds; the random-mode value (dice = Roll-contract symbols) lies between them"
func VH_C15_vm() {
	k := vChoice("prog", len(vC15Progs))
	pr := vC15Progs[k]
	// the mode is set before Run, or (parse-once) after Parse and before RunAfterParsed
	parseOnce := vChoice("parse-once", 2) == 1
	run := func(mode int) (*Context, error) {
		vm := vSeededVM()
		vm.Config.DefaultDiceSideExpr = pr.defSides
		if parseOnce {
			// parsed under the opposite mode, evaluated under the wanted one
			vm.Config.DiceMinMode = mode > 0
			vm.Config.DiceMaxMode = mode <= 0
			if err := vm.Parse(pr.src); err != nil {
				return vm, err
			}
			vm.Config.DiceMinMode = mode < 0
			vm.Config.DiceMaxMode = mode > 0
			return vm, vm.RunAfterParsed()
		}
		vm.Config.DiceMinMode = mode < 0
		vm.Config.DiceMaxMode = mode > 0
		err := vm.Run(pr.src)
		return vm, err
	}
	lovm, err := run(-1)
	vAssert(err == nil, "min-mode-run-succeeds")
	n1 := vDrawCount()
	hivm, err2 := run(1)
	vAssert(err2 == nil, "max-mode-run-succeeds")
	vReach("ran")
	vAssert(n1 == 0 && vDrawCount() == 0, "min/max-mode-consume-no-randomness")
	if err != nil || err2 != nil {
		return
	}
	fresh := vSeededVM()
	s0, _ := fresh.GetCurSeed()
	s1, _ := lovm.GetCurSeed()
	s2, _ := hivm.GetCurSeed()
	vAssert(string(s1) == string(s0) && string(s2) == string(s0), "min/max-mode-leave-generator-state-unchanged")
	lo, ok1 := lovm.Ret.ReadInt()
	hi, ok2 := hivm.Ret.ReadInt()
	vAssert(ok1 && ok2, "integer-results")
	vObserve("lo", lo)
	vObserve("hi", hi)
	vAssert(int64(lo) == pr.lo, "min-mode-gives-the-lowest-outcome")
	vAssert(int64(hi) == pr.hi, "max-mode-gives-the-highest-outcome")
	midvm, err3 := run(0)
	vAssert(err3 == nil, "random-mode-run-succeeds")
	if err3 != nil {
		return
	}
	mid, ok3 := midvm.Ret.ReadInt()
	vAssert(ok3, "integer-results")
	vAssert(vAnd(lo <= mid, mid <= hi), "random-result-is-bracketed")
}
