//go:build verif

package dicescript

import "golang.org/x/exp/rand"

func init() {
	vHarnesses["VH_C15_common"] = VH_C15_common
	vHarnesses["VH_C15_coc_fate"] = VH_C15_coc_fate
}

//vh:prop=C15 tiers=quick,thorough solver=z3-new/int summaries=Roll:roll-contract unwind=12 quick:P.maxTimes=3 thorough:P.maxTimes=4 bounds="RollCommon under modes -1/0/+1 with identical parameters: times in 1..maxTimes, 1<=sides<=2^40, counts/min/max within +-2^40, min<=max when both given; random dice are Roll's contract values"
func VH_C15_common() {
	src := &rand.PCGSource{}
	times := 1 + vChoice("times", vParam("maxTimes", 3))
	sides := vInt64("sides")
	vAssume(sides >= 1)
	vAssume(sides <= 1<<40)
	lh := vChoice("keepmode", 5)
	var low, high int64
	if lh == 1 || lh == 3 {
		low = vInt64("low")
		vAssume(low >= -(1 << 40))
		vAssume(low <= 1<<40)
	}
	if lh == 2 || lh == 4 {
		high = vInt64("high")
		vAssume(high >= -(1 << 40))
		vAssume(high <= 1<<40)
	}
	var pmin, pmax *IntType
	var dmin, dmax int64
	mm := vChoice("minmax", 4)
	if mm&1 != 0 {
		dmin = vInt64("min")
		vAssume(dmin >= -(1 << 40))
		vAssume(dmin <= 1<<40)
		x := IntType(dmin)
		pmin = &x
	}
	if mm&2 != 0 {
		dmax = vInt64("max")
		vAssume(dmax >= -(1 << 40))
		vAssume(dmax <= 1<<40)
		x := IntType(dmax)
		pmax = &x
	}
	if mm == 3 {
		vAssume(dmin <= dmax)
	}
	lo, _ := RollCommon(src, IntType(times), IntType(sides), pmin, pmax, IntType(lh), IntType(low), IntType(high), -1)
	vAssert(vDrawCount() == 0, "min-mode-consumes-no-randomness")
	hi, _ := RollCommon(src, IntType(times), IntType(sides), pmin, pmax, IntType(lh), IntType(low), IntType(high), 1)
	vAssert(vDrawCount() == 0, "max-mode-consumes-no-randomness")
	vAssert(vGlobalRandUses() == 0, "no-global-generator")
	mid, _ := RollCommon(src, IntType(times), IntType(sides), pmin, pmax, IntType(lh), IntType(low), IntType(high), 0)
	vReach("rolled")
	vObserve("lo", lo)
	vObserve("mid", mid)
	vObserve("hi", hi)
	vAssert(lo <= mid, "min-mode-is-a-lower-bound")
	vAssert(mid <= hi, "max-mode-is-an-upper-bound")
	// attainment: bounds are what all-lowest / all-highest faces give
	clamp := func(d int64) int64 {
		if mm&2 != 0 {
			d = vIteInt64(d > dmax, dmax, d)
		}
		if mm&1 != 0 {
			d = vIteInt64(d < dmin, dmin, d)
		}
		return d
	}
	var keep int64 = int64(times)
	switch lh {
	case 1:
		keep = low
	case 2:
		keep = high
	case 3:
		keep = int64(times) - low
	case 4:
		keep = int64(times) - high
	}
	keep = vIteInt64(keep < 0, 0, keep)
	keep = vIteInt64(keep > int64(times), int64(times), keep)
	var wantLo, wantHi int64
	for i := 0; i < times; i++ {
		wantLo += vIteInt64(int64(i) < keep, clamp(1), 0)
		wantHi += vIteInt64(int64(i) < keep, clamp(sides), 0)
	}
	vAssert(int64(lo) == wantLo, "min-mode-attained-by-all-lowest-faces")
	vAssert(int64(hi) == wantHi, "max-mode-attained-by-all-highest-faces")
}

//vh:prop=C15 tiers=quick,thorough summaries=Roll:roll-contract unwind=40 quick:P.maxK=2 thorough:P.maxK=3 bounds="RollCoC (bonus/penalty, k in 0..maxK) and RollFate under modes -1/0/+1"
func VH_C15_coc_fate() {
	src := &rand.PCGSource{}
	if vChoice("family", 2) == 0 {
		lo, _ := RollFate(src, -1)
		hi, _ := RollFate(src, 1)
		vAssert(vDrawCount() == 0, "min/max-mode-consume-no-randomness")
		mid, _ := RollFate(src, 0)
		vAssert(vAnd(lo <= mid, mid <= hi), "fate-bracketed")
		vAssert(vAnd(lo == -4, hi == 4), "fate-bounds-attained")
		return
	}
	k := vChoice("k", vParam("maxK", 2)+1)
	bonus := vChoice("bonus", 2) == 1
	lo, _ := RollCoC(src, bonus, IntType(k), -1)
	hi, _ := RollCoC(src, bonus, IntType(k), 1)
	vAssert(vDrawCount() == 0, "min/max-mode-consume-no-randomness")
	mid, _ := RollCoC(src, bonus, IntType(k), 0)
	vObserve("lo", lo)
	vObserve("mid", mid)
	vObserve("hi", hi)
	vAssert(lo <= mid, "coc-min-mode-is-a-lower-bound")
	vAssert(mid <= hi, "coc-max-mode-is-an-upper-bound")
}
