//go:build verif

package dicescript

// Shared builders for harnesses: values of every script type with symbolic
// payloads (INV_value of DESIGN.md §3), VM configuration choices, observers.

// kinds of vSymValue
const (
	vkInt = iota
	vkFloat
	vkStr
	vkNull
	vkArray
	vkDict
	vkComputed
	vkFunc
	vkNative
	vkCount
)

var vStrPool = []string{"", "a", "12", "汉x", "1.5"}

// vSymValue builds a script value of a kind chosen by case split, payloads
// symbolic.  depth bounds container nesting; containers hold 0..2 elements.
func vSymValue(label string, depth int) *VMValue {
	n := vkCount
	if depth <= 0 {
		n = vkArray // scalars only
	}
	switch vChoice(label+"_kind", n) {
	case vkInt:
		return NewIntVal(IntType(vInt64(label + "_int")))
	case vkFloat:
		return NewFloatVal(vFloat64(label + "_flt"))
	case vkStr:
		return NewStrVal(vStrPool[vChoice(label+"_str", len(vStrPool))])
	case vkNull:
		return NewNullVal()
	case vkArray:
		k := vChoice(label+"_len", 3)
		items := make([]*VMValue, k)
		for i := range items {
			items[i] = vSymValue(label+"_e", depth-1)
		}
		return NewArrayValRaw(items)
	case vkDict:
		k := vChoice(label+"_len", 3)
		m := &ValueMap{}
		keys := []string{"a", "b"}
		for i := 0; i < k; i++ {
			m.Store(keys[i], vSymValue(label+"_v", depth-1))
		}
		return NewDictVal(m).V()
	case vkComputed:
		cd := &ComputedData{Expr: "this.a + 1", Attrs: &ValueMap{}}
		cd.Attrs.Store("a", NewIntVal(IntType(vInt64(label+"_ca"))))
		return NewComputedValRaw(cd)
	case vkFunc:
		return NewFunctionValRaw(&FunctionData{Expr: "return a", Name: "fn", Params: []string{"a"}})
	default:
		return builtinValues["abs"]
	}
}

// vSymInt is a script integer with symbolic payload.
func vSymIntVal(label string) *VMValue { return NewIntVal(IntType(vInt64(label))) }

// vNewVM builds a VM with all dice families enabled and the usual budgets.
func vNewVM() *Context {
	vm := NewVM()
	vm.Config.EnableDiceWoD = true
	vm.Config.EnableDiceCoC = true
	vm.Config.EnableDiceFate = true
	vm.Config.EnableDiceDoubleCross = true
	return vm
}

// vObserveAll exercises every observer the embedding program may call after
// an evaluation (C01: they must all return normally).
func vObserveAll(vm *Context, err error) {
	if err != nil {
		_ = err.Error()
	}
	if vm.Ret != nil {
		_ = vm.Ret.ToString()
		_ = vm.Ret.ToRepr()
		_ = vm.Ret.AsBool()
		_ = vm.Ret.GetTypeName()
	}
	_ = vm.GetDetailText()
	_ = vm.GetDetailText()
	_ = vm.GetAsmText()
	_ = vm.Matched
	_ = vm.RestInput
	_ = vm.GetErrorText()
}

// vSymSource returns n symbolic bytes, each constrained to the given
// alphabet (all of 0x00..0x7F when alphabet is empty).
func vSymSource(label string, n int, alphabet string) []byte {
	b := vSymBytes(label, n)
	for i := range b {
		if alphabet == "" {
			vAssume(b[i] < 0x80)
			continue
		}
		ok := false
		for j := 0; j < len(alphabet); j++ {
			ok = vOr(ok, b[i] == alphabet[j])
		}
		vAssume(ok)
	}
	return b
}

// vWalkCode visits every instruction of a compiled program including the
// bodies of functions and computed values it defines.
func vWalkCode(code []ByteCode, n int, depth int, visit func(c ByteCode, pc int, n int)) {
	if depth > 4 {
		return
	}
	for pc := 0; pc < n && pc < len(code); pc++ {
		c := code[pc]
		visit(c, pc, n)
		switch c.T {
		case typePushFunction:
			if v, ok := c.Value.(*VMValue); ok && v != nil {
				if fd, ok := v.ReadFunctionData(); ok && fd.code != nil {
					vWalkCode(fd.code, fd.codeIndex, depth+1, visit)
				}
			}
		case typePushComputed:
			if v, ok := c.Value.(*VMValue); ok && v != nil {
				if cd, ok := v.ReadComputed(); ok && cd.code != nil {
					vWalkCode(cd.code, cd.codeIndex, depth+1, visit)
				}
			}
		}
	}
}
