//go:build verif

package dicescript

import (
	"errors"
	"strconv"
)

func init() {
	vHarnesses["VH_C17_transparent"] = VH_C17_transparent
	vHarnesses["VH_C17_match"] = VH_C17_match
	vHarnesses["VH_C17_alt"] = VH_C17_alt
}

var vC17Progs = []string{
	"1+2*3", "xx + yy", "v1 = xx; v1 * 2", "[xx, yy][1]", "{'k': xx}.k", "`a{xx}b`", "if xx > yy { 1 } else { 2 }",
	"func fn1(n) { return n + xx }; fn1(yy)", "&v1 = xx + 1; v1", "2d6 + d20", "3d6kh2", "b2 + f", "2a8 + 2c8", "[1,2,3].sum()",
	"i = 0; while i < 2 { i = i + 1 }; i", "xx ?? yy", "1 +", "xx yy", "'s' + toStr(xx)", "d", "x5", "2x5", "x", "xx + x7 + 1",
}

// extension points that never act
func vC17InstallInert(vm *Context, mode int) {
	if mode&1 != 0 {
		_ = vm.RegCustomDice(`^\x00z(\d+)`, func(ctx *Context, groups []string, payload any) (*VMValue, string, error) {
			return nil, "", errors.New("inert regex dice must never run")
		})
		// patterns that match only the empty text here: an empty match is no match
		_ = vm.RegCustomDice(`(\x00y\d+)?`, func(ctx *Context, groups []string, payload any) (*VMValue, string, error) {
			return nil, "", errors.New("inert regex dice must never run")
		})
		_ = vm.RegCustomDice(`\x00*`, func(ctx *Context, groups []string, payload any) (*VMValue, string, error) {
			return nil, "", errors.New("inert regex dice must never run")
		})
		// never matches
		_ = vm.RegCustomDiceParser(func(ctx *Context, s *CustomDiceStream) (*CustomDiceParseResult, error) {
			return &CustomDiceParseResult{Matched: false}, nil
		}, func(ctx *Context, groups []string, payload any) (*VMValue, string, error) {
			return nil, "", errors.New("inert stream dice must never run")
		})
		// reads ahead, then declines
		_ = vm.RegCustomDiceParser(func(ctx *Context, s *CustomDiceStream) (*CustomDiceParseResult, error) {
			s.Read()
			s.Read()
			s.ReadDigits()
			return nil, nil
		}, func(ctx *Context, groups []string, payload any) (*VMValue, string, error) {
			return nil, "", errors.New("inert stream dice must never run")
		})
	}
	if mode&2 != 0 {
		vm.Config.HookValueLoadPre = func(ctx *Context, name string) (string, *VMValue) { return name, nil }
		vm.Config.HookValueLoadPost = func(ctx *Context, name string, cur *VMValue, doCompute func(*VMValue) *VMValue, detail *BufferSpan) *VMValue {
			return doCompute(cur)
		}
		vm.Config.HookValueStore = func(ctx *Context, name string, v *VMValue) (*VMValue, bool) { return nil, false }
	}
	if mode&4 != 0 {
		vm.Config.CustomDetailRewriteFunc = func(ctx *Context, cur string, span BufferSpan, data []byte, off int) string { return cur }
		vm.Config.CustomDetailSpanRewriteFunc = func(ctx *Context, def string, span BufferSpan, isRoot bool, data []byte, off int) string { return def }
	}
}

//vh:prop=C17 tiers=quick,thorough sigkeys=prog,mode unwind=8 unwind_ok=1 budget_s=1500 bounds="24 programs (arithmetic, variables, containers, templates, control flow, functions, computed values, every dice family in min mode, syntax errors, identifiers beginning like the custom trigger) with integer variables as 64-bit symbols, each evaluated plain and with inert extension points in every combination of {never-matching regex and stream dice incl. a parser that reads ahead and declines, identity load/store hooks, identity detail rewriters}: value, error status, process text, rest text and variables must be identical"
func VH_C17_transparent() {
	k := vChoice("prog", len(vC17Progs))
	mode := 1 + vChoice("mode", 7)
	p, q := vInt64("xx"), vInt64("yy")
	run := func(m int) (*Context, error) {
		vm := vNewVM()
		vm.Config.DiceMinMode = true
		vm.Config.OpCountLimit = 30000
		vm.Attrs.Store("xx", NewIntVal(IntType(p)))
		vm.Attrs.Store("yy", NewIntVal(IntType(q)))
		vC17InstallInert(vm, m)
		err := vm.Run(vC17Progs[k])
		return vm, err
	}
	a, ea := run(0)
	b, eb := run(mode)
	vReach("ran")
	vAssert((ea == nil) == (eb == nil), "same-error-status")
	if ea != nil || eb != nil {
		if ea != nil && eb != nil {
			vAssert(ea.Error() == eb.Error(), "same-error-text")
		}
		return
	}
	vAssert(a.Ret.ToRepr() == b.Ret.ToRepr(), "same-value")
	vAssert(a.GetDetailText() == b.GetDetailText(), "same-process-text")
	vAssert(a.RestInput == b.RestInput, "same-rest-text")
	vAssert(a.Matched == b.Matched, "same-matched-text")
	vAssert(vAttrsString(a) == vAttrsString(b), "same-variables")
}

var vC17MatchProgs = []struct {
	src     string
	calls   int
	matched string
}{
	{"x5", 1, "x5"}, {"x12 + 1", 1, "x12"}, {"1 + x7", 1, "x7"}, {"x3 + x3", 2, "x3"}, {"[x4, 2][0]", 1, "x4"},
	{"i = 0; while i < 3 { i = i + 1; x9 }", 3, "x9"}, {"func fn1() { return x8 }; fn1() + fn1()", 2, "x8"}, {"`{x6}`", 1, "x6"}, {"x", 0, ""}, {"xx", 0, ""},
}

//vh:prop=C17 tiers=quick,thorough sigkeys=prog,kind,decliner budget_s=600 bounds="10 programs using a custom dice syntax x<digits> registered as a regex and as a stream parser, alone or after an unrelated stream syntax whose parser reads ahead (1 rune / 2 runes and digits) and declines without rewinding: the handler runs exactly once per evaluation of the operand (also inside loops, functions, templates), receives exactly the matched text as group 0, its result is used by copy (mutating it afterwards does not change the evaluation result), and text not matching the syntax never reaches it"
func VH_C17_match() {
	k := vChoice("prog", len(vC17MatchProgs))
	pr := vC17MatchProgs[k]
	vm := vNewVM()
	vm.Config.OpCountLimit = 30000
	var got []string
	shared := NewIntVal(42)
	handler := func(ctx *Context, groups []string, payload any) (*VMValue, string, error) {
		if len(groups) > 0 {
			got = append(got, groups[0])
			for i := range groups {
				groups[i] = "scratch" // a handler may use its argument as scratch space
			}
		} else {
			got = append(got, "<no groups>")
		}
		return shared, "", nil
	}
	// optionally an unrelated stream syntax registered first whose parser reads
	// ahead and declines without rewinding (it is the engine's job to rewind)
	declinerRan := false
	if dk := vChoice("decliner", 3); dk > 0 {
		vAssert(vm.RegCustomDiceParser(func(ctx *Context, s *CustomDiceStream) (*CustomDiceParseResult, error) {
			s.Read()
			if dk == 2 {
				s.Read()
				s.ReadDigits()
				return &CustomDiceParseResult{Matched: false}, nil
			}
			return nil, nil
		}, func(ctx *Context, groups []string, payload any) (*VMValue, string, error) {
			declinerRan = true
			return NewIntVal(0), "", nil
		}) == nil, "parser-registers")
	}
	if vChoice("kind", 2) == 0 {
		vAssert(vm.RegCustomDice(`^x(\d+)`, handler) == nil, "regex-registers")
	} else {
		vAssert(vm.RegCustomDiceParser(func(ctx *Context, s *CustomDiceStream) (*CustomDiceParseResult, error) {
			r, ok := s.Read()
			if !ok || r != 'x' {
				return nil, nil
			}
			if _, ok := s.ReadDigits(); !ok {
				return nil, nil
			}
			return &CustomDiceParseResult{Matched: true}, nil
		}, handler) == nil, "parser-registers")
	}
	err := vm.Run(pr.src)
	vReach("ran")
	if pr.calls > 0 {
		vAssert(err == nil, "custom-dice-program-evaluates")
	}
	vAssert(!declinerRan, "declining-syntax-never-handles")
	vAssert(len(got) == pr.calls, "handler-runs-once-per-evaluation-of-the-operand")
	for _, g := range got {
		vAssert(g == pr.matched, "handler-receives-exactly-the-matched-text")
	}
	if err == nil && pr.calls > 0 {
		before := vm.Ret.ToRepr()
		shared.Value = IntType(7) // mutate the handler's value afterwards
		vAssert(vm.Ret.ToRepr() == before, "handler-result-is-used-by-copy")
	}
}

// a regex syntax as a host would write it: not anchored, with a top-level
// alternation; a match that starts later in the input is not this operand's
var vC17AltProgs = []struct {
	src   string
	calls []string // texts the handler must receive, in order
	val   int64
	rest  string
}{
	{"1+F3", []string{"F3"}, 43, ""},
	{"E2*2", []string{"E2"}, 84, ""},
	{"F1 + E15", []string{"F1", "E15"}, 84, ""},
	{"2+3 F9", nil, 5, " F9"},
	{"v1 = 4; v1 + 1 E2", nil, 5, " E2"},
	{"E7 + 1 * 2", []string{"E7"}, 44, ""},
	{"7 // E1", nil, 7, " // E1"},
}

//vh:prop=C17 tiers=quick,thorough sigkeys=prog budget_s=300 bounds="7 programs with a custom dice syntax registered as the unanchored regex E(\\d+)|F(\\d+): the handler receives exactly the operand texts, in order; an occurrence of the syntax later in the input (after a space, in a comment) is not pulled into an earlier operand; value and rest text as written"
func VH_C17_alt() {
	k := vChoice("prog", len(vC17AltProgs))
	pr := vC17AltProgs[k]
	vm := vNewVM()
	var got []string
	vAssert(vm.RegCustomDice(`E(\d+)|F(\d+)`, func(ctx *Context, groups []string, payload any) (*VMValue, string, error) {
		if len(groups) > 0 {
			got = append(got, groups[0])
		}
		return NewIntVal(42), "", nil
	}) == nil, "regex-registers")
	err := vm.Run(pr.src)
	vReach("ran")
	vAssert(err == nil, "custom-dice-program-evaluates")
	if err != nil {
		return
	}
	vAssert(len(got) == len(pr.calls), "handler-runs-once-per-operand")
	for i := range got {
		if i < len(pr.calls) {
			vAssert(got[i] == pr.calls[i], "handler-receives-exactly-the-matched-text")
		}
	}
	v, ok := vm.Ret.ReadInt()
	vAssert(ok && int64(v) == pr.val, "value-as-written")
	vAssert(vm.RestInput == pr.rest, "rest-text-as-written")
}

func init() {
	vHarnesses["VH_C17_stream2"] = VH_C17_stream2
}

var vC17Stream2Progs = []struct {
	src   string
	calls []string // "text a b" for every handler call, in order
	val   int64
}{
	{"C3T2", []string{"C3T2 3 2"}, 5},
	{"C3T2 + C40T50", []string{"C3T2 3 2", "C40T50 40 50"}, 95},
	{"C1T1 * 2 + C7T8 + C9T9", []string{"C1T1 1 1", "C7T8 7 8", "C9T9 9 9"}, 37},
	{"x = C5T6; x + C1T2", []string{"C5T6 5 6", "C1T2 1 2"}, 14},
	{"i = 0; s = 0; while i < 2 { i = i + 1; s = s + C2T3 }; s + C10T1", []string{"C2T3 2 3", "C2T3 2 3", "C10T1 10 1"}, 21},
}

//vh:prop=C17 tiers=quick,thorough sigkeys=prog,reuse,display budget_s=600 bounds="5 programs with one to three operands of a custom syntax C<a>T<b> registered as a stream parser that returns explicit groups, either in fresh storage or in one slice it reuses for every call (its own property), with no display text or one shorter / longer than the consumed text: the handler receives, for each operand and each evaluation, exactly that operand's text and groups, in order, and the value is the sum the groups imply"
func VH_C17_stream2() {
	pr := vC17Stream2Progs[vChoice("prog", len(vC17Stream2Progs))]
	reuse := vChoice("reuse", 2) == 1
	display := vChoice("display", 3)
	vm := vNewVM()
	vm.Config.OpCountLimit = 30000
	var got []string
	buf := make([]string, 3)
	vAssert(vm.RegCustomDiceParser(func(ctx *Context, s *CustomDiceStream) (*CustomDiceParseResult, error) {
		r, ok := s.Read()
		if !ok || r != 'C' {
			return nil, nil
		}
		a, ok := s.ReadDigits()
		if !ok {
			return nil, nil
		}
		r, ok = s.Read()
		if !ok || r != 'T' {
			return nil, nil
		}
		b, ok := s.ReadDigits()
		if !ok {
			return nil, nil
		}
		g := buf
		if !reuse {
			g = make([]string, 3)
		}
		g[0], g[1], g[2] = "C"+a+"T"+b, a, b
		// what is shown for the operand need not be as long as what was consumed
		return &CustomDiceParseResult{Matched: true, Groups: g, Display: []string{"", "c", "check(" + a + ", " + b + ")"}[display]}, nil
	}, func(ctx *Context, groups []string, payload any) (*VMValue, string, error) {
		if len(groups) != 3 {
			got = append(got, "<wrong group count>")
			return NewIntVal(0), "", nil
		}
		got = append(got, groups[0]+" "+groups[1]+" "+groups[2])
		x, _ := strconv.Atoi(groups[1])
		y, _ := strconv.Atoi(groups[2])
		return NewIntVal(IntType(x + y)), "", nil
	}) == nil, "parser-registers")
	err := vm.Run(pr.src)
	vReach("ran")
	vAssert(err == nil, "custom-dice-program-evaluates")
	if err != nil {
		return
	}
	vAssert(vm.RestInput == "", "program-consumed-entirely")
	vAssert(len(got) == len(pr.calls), "handler-runs-once-per-evaluation-of-each-operand")
	for i := range got {
		if i < len(pr.calls) {
			vAssert(got[i] == pr.calls[i], "handler-receives-that-operand's-text-and-groups")
		}
	}
	v, ok := vm.Ret.ReadInt()
	vAssert(ok && int64(v) == pr.val, "value-is-what-the-groups-imply")
}
