//go:build verif

package dicescript

func init() {
	vHarnesses["VH_SMOKE_src"] = VH_SMOKE_src
}

//vh:prop=SMOKE2 tiers=quick unwind=200 unwind_ok=1 quick:P.n=2 bounds="symbolic source smoke"
func VH_SMOKE_src() {
	n := vParam("n", 2)
	b := vSymBytes("b", n)
	for i := range b {
		vAssume(b[i] < 0x80)
	}
	vm := vNewVM()
	vm.Config.DiceMinMode = true
	err := vm.Run(string(b))
	vReach("ran")
	vObserveAll(vm, err)
}
