//go:build verif

package dicescript

import (
	"bufio"
	"bytes"
	"io"
	"errors"
	"fmt"
	"math"
	"math/bits"
	"regexp"
	"slices"
	"encoding/json"
	"sort"
	"strconv"
	"strings"
	"sync"
	"sync/atomic"
	"unicode"
	"unicode/utf8"
)

func init() {
	vHarnesses["VH_SMOKE_std"] = VH_SMOKE_std
}

type vSmokeErr struct{ s string }

func (e *vSmokeErr) Error() string { return e.s }

var vSmokeStd = []func() string{
	func() string { var sb strings.Builder; sb.WriteString("ab"); sb.WriteByte('c'); sb.WriteRune('é'); fmt.Fprintf(&sb, "%d-%s", 7, "x"); return sb.String() + strconv.Itoa(sb.Len()) },
	func() string { var b bytes.Buffer; b.WriteString("ab"); b.WriteByte('c'); b.Write([]byte("de")); fmt.Fprintf(&b, "%v", []int{1, 2}); return b.String() },
	func() string { x := []int{3, 1, 2}; sort.Ints(x); y := []string{"b", "a"}; sort.Strings(y); return fmt.Sprint(x, y, sort.SearchInts(x, 2)) },
	func() string { x := []int{3, 1, 2, 1}; sort.SliceStable(x, func(i, j int) bool { return x[i] < x[j] }); return fmt.Sprint(x) },
	func() string { return strings.ReplaceAll("a-b-c", "-", "+") + strings.Repeat("z", 3) + strings.ToUpper("q") + strings.Title("w") + strings.TrimLeft("  x", " ") },
	func() string { return fmt.Sprint(strings.Fields(" a b  c "), strings.SplitN("a,b,c", ",", 2), strings.Contains("abc", "bc"), strings.Index("abc", "c"), strings.LastIndex("abca", "a"), strings.HasPrefix("abc", "ab"), strings.EqualFold("A", "a")) },
	func() string { return strings.Map(func(r rune) rune { return r + 1 }, "abc") + strings.NewReplacer("a", "1", "b", "2").Replace("abc") + strings.TrimFunc("xxaxx", func(r rune) bool { return r == 'x' }) },
	func() string { q := strconv.Quote("a\"b\n"); u, err := strconv.Unquote(q); return q + u + fmt.Sprint(err) + strconv.FormatUint(77, 16) + strconv.FormatBool(true) },
	func() string { b := strconv.AppendUint(nil, 9, 10); b = strconv.AppendInt(b, -4, 10); b = strconv.AppendQuote(b, "q"); b = strconv.AppendBool(b, false); b = strconv.AppendFloat(b, 1.5, 'g', -1, 64); return string(b) },
	func() string { v, err := strconv.Atoi("12x"); w, _ := strconv.ParseBool("true"); x, _ := strconv.ParseUint("ff", 16, 64); return fmt.Sprint(v, err, w, x) },
	func() string { e1 := &vSmokeErr{"e1"}; e2 := fmt.Errorf("wrap: %w", e1); var t *vSmokeErr; return fmt.Sprint(errors.Is(e2, e1), errors.As(e2, &t), t == e1, errors.Unwrap(e2) == e1, errors.Join(e1, e2) != nil) },
	func() string { return fmt.Sprint(bits.OnesCount64(255), bits.Len(8), bits.TrailingZeros32(8), bits.LeadingZeros64(1), math.MaxInt64, math.Floor(2.5), math.Abs(-1.5), math.Trunc(-2.7), math.IsNaN(math.NaN()), math.Inf(1) > 1) },
	func() string { return fmt.Sprint(utf8.RuneCountInString("aé"), utf8.RuneLen('é'), utf8.ValidString("a\xff"), string(utf8.AppendRune(nil, 'é')), unicode.IsDigit('5'), unicode.IsLetter('é'), unicode.IsUpper('A'), unicode.ToUpper('a'), unicode.Is(unicode.Han, '力')) },
	func() string { var n atomic.Int64; n.Add(3); n.Store(n.Load() + 1); var b atomic.Bool; b.Store(true); var p atomic.Pointer[int]; x := 5; p.Store(&x); return fmt.Sprint(n.Load(), b.Load(), *p.Load(), n.CompareAndSwap(4, 9), n.Load()) },
	func() string { var once sync.Once; k := 0; once.Do(func() { k++ }); once.Do(func() { k++ }); var rw sync.RWMutex; rw.RLock(); rw.RUnlock(); rw.Lock(); rw.Unlock(); return fmt.Sprint(k) },
	func() string { var m sync.Map; m.Store("a", 1); v, ok := m.Load("a"); w, l := m.LoadOrStore("b", 2); n := 0; m.Range(func(k, v any) bool { n++; return true }); m.Delete("a"); _, ok2 := m.Load("a"); return fmt.Sprint(v, ok, w, l, n, ok2) },
	func() string { p := sync.Pool{New: func() any { return new(int) }}; a := p.Get().(*int); *a = 4; p.Put(a); b := p.Get().(*int); return fmt.Sprint(*b) },
	func() string { return fmt.Sprintf("%5d|%-4s|%x|%q|%v|%+v|%T|%08.3f|%c|%U|%t|%%|%s", 42, "ab", 255, "q", []string{"a"}, struct{ A int }{1}, 1.5, 3.14159, 'x', 'é', true, error(&vSmokeErr{"e"})) },
	func() string { x := []int{1, 2, 3, 4}; y := append([]int(nil), x[1:3]...); copy(x, y); m := map[string]int{"a": 1}; m["b"] = 2; delete(m, "a"); _, ok := m["a"]; return fmt.Sprint(x, y, len(m), ok, cap(y) >= 2) },
	func() string { b := []byte("héllo"); return fmt.Sprint(bytes.Contains(b, []byte("ll")), bytes.IndexByte(b, 'l'), string(bytes.ToUpper(b)), bytes.Equal(b, []byte("x")), string(bytes.TrimSpace([]byte(" a "))), bytes.HasPrefix(b, []byte("h")), string(bytes.Join([][]byte{[]byte("a"), []byte("b")}, []byte(",")))) },
	func() string { return fmt.Sprint(strings.Compare("a", "b"), strings.Count("cheese", "e"), strings.TrimSuffix("a.go", ".go"), strings.IndexRune("chicken", 'k'), strings.ContainsRune("abc", 'b'), strings.ContainsAny("abc", "xyzc"), strings.IndexAny("golang", "ny"), strings.ToLower("ÀB"), strings.TrimRight("abc  ", " "), strings.Fields("k v")[1]) },
	func() string { x := []int{3, 1, 2}; slices.Sort(x); y := slices.Clone(x); slices.Reverse(y); i, f := slices.BinarySearch(x, 2); return fmt.Sprint(x, y, slices.Contains(x, 2), slices.Index(x, 3), slices.Max(x), slices.Min(x), i, f, slices.Equal(x, y)) },
	func() string { x := []string{"b", "a", "c"}; slices.SortFunc(x, func(a, b string) int { return strings.Compare(b, a) }); x = slices.Insert(x, 1, "z"); x = slices.Delete(x, 0, 1); return fmt.Sprint(x, slices.IndexFunc(x, func(s string) bool { return s == "a" })) },
	func() string { re := regexp.MustCompile(`^(\d+)d(\d+)$`); m := re.FindStringSubmatch("12d6"); return fmt.Sprint(re.MatchString("3d6"), m, re.ReplaceAllString("1d2", "$2x$1"), regexp.MustCompile("[a-c]+").FindAllString("abxcab", -1), re.NumSubexp()) },
	func() string { f, err := strconv.ParseFloat("1.5e3", 64); g, err2 := strconv.ParseFloat("x", 64); return fmt.Sprint(f, err, g, err2 != nil, math.Pow(2, 10), math.Sqrt(16), math.Mod(7, 3), math.Round(2.5), math.Ceil(1.2), math.MaxFloat64 > 1, math.Log2(8), math.Min(1, 2), math.Hypot(3, 4)) },
	func() string { r, n := utf8.DecodeRuneInString("é!"); b := make([]byte, 4); k := utf8.EncodeRune(b, '力'); r2, n2 := utf8.DecodeLastRuneInString("a力"); return fmt.Sprint(r, n, b[:k], r2, n2, utf8.Valid([]byte("ok")), utf8.RuneCount([]byte("力a")), utf8.FullRune([]byte{0xe5}), unicode.IsSpace('\t'), unicode.IsPunct('!'), unicode.ToLower('Q'), unicode.In('力', unicode.Han, unicode.Latin)) },
	func() string { var b bytes.Buffer; b.WriteString("hello world"); b.Truncate(5); b.WriteRune('力'); x := b.Bytes(); b2 := bytes.NewBufferString("a,b"); s, err := b2.ReadString(','); return fmt.Sprint(string(x), b.Len(), s, err, b2.String()) },
	func() string { type T struct { A int `json:"a"`; B []string `json:"b,omitempty"`; C map[string]int `json:"c"` }; d, err := json.Marshal(T{A: 1, C: map[string]int{"z": 1, "y": 2}}); var t T; err2 := json.Unmarshal([]byte(`{"a":5,"b":["x"],"c":{"k":3}}`), &t); return fmt.Sprint(string(d), err, t.A, t.B, t.C["k"], err2) },
	func() (out string) { defer func() { if r := recover(); r != nil { out = fmt.Sprint("recovered: ", r) } }(); var m map[string]int; m["a"] = 1; return "unreachable" },
	func() (out string) { defer func() { r := recover(); out = fmt.Sprint(r) }(); x := []int{1}; i := 3; return fmt.Sprint(x[i]) },
	func() string { out := ""; outer: for i := 0; i < 3; i++ { for j := 0; j < 3; j++ { if j == 2 { continue outer }; if i == 2 { break outer }; out += fmt.Sprint(i, j, ";") } }; var v any = 3.5; switch t := v.(type) { case int: out += "int"; case float64: out += fmt.Sprint("f", t) }; return out },
	func() string { x := []int{1, 2, 3}; m := map[int]bool{1: true}; delete(m, 1); s := 0; for i := 0; i < 4; i++ { s += i }; f := func(xs ...int) int { t := 0; for _, v := range xs { t += v }; return t }; return fmt.Sprint(x, len(m), s, f(x...), f()) },
	func() string { type pair struct{ k string; v int }; ps := []pair{{"b", 2}, {"a", 2}, {"c", 1}}; sort.Slice(ps, func(i, j int) bool { if ps[i].v != ps[j].v { return ps[i].v < ps[j].v }; return ps[i].k < ps[j].k }); return fmt.Sprintf("%v %+v", ps, ps[0]) },
	func() string { return strings.Join(strings.Split("a,b,,c", ","), "|") + strings.TrimSpace("\t x \n") + strings.TrimPrefix("prefix-x", "prefix-") + fmt.Sprint(strings.SplitAfter("a,b", ","), strings.FieldsFunc("a1b2c", unicode.IsDigit), strings.LastIndexByte("abca", 'a'), strings.ToTitle("x")) },
	func() string { var sb strings.Builder; for i := 0; i < 3; i++ { if i > 0 { sb.WriteString(", ") }; sb.WriteString(strconv.Itoa(i * 11)) }; w := &sb; fmt.Fprint(w, " end ", 5, 6); fmt.Fprintln(w, "x", 7); return sb.String() },
	func() string { sc := bufio.NewScanner(strings.NewReader("l1\nl2\r\n\nend")); out := ""; for sc.Scan() { out += "[" + sc.Text() + "]" }; sc2 := bufio.NewScanner(bytes.NewReader([]byte("a b  c"))); sc2.Split(bufio.ScanWords); n := 0; for sc2.Scan() { n++ }; return out + fmt.Sprint(n, sc.Err()) },
	func() string { r := bufio.NewReader(strings.NewReader("x,y\nz")); s, err := r.ReadString(','); l, _, err2 := r.ReadLine(); rest, _ := io.ReadAll(r); var w bytes.Buffer; bw := bufio.NewWriter(&w); bw.WriteString("q"); bw.Flush(); sr := strings.NewReader("abc"); b := make([]byte, 2); k, _ := sr.Read(b); return fmt.Sprint(s, err, string(l), err2, string(rest), w.String(), k, string(b), sr.Len()) },
}

//vh:prop=SMOKE tiers=std samples=40 sigkeys=k bounds="standard-library calls a refactoring of the code under test might introduce: each must run in the engine and agree with the native build"
func VH_SMOKE_std() {
	k := vParam("k", -1)
	if k < 0 {
		k = vChoice("k", len(vSmokeStd))
	}
	vObserve("out", vSmokeStd[k]())
	vReach("ran")
}
