//go:build verif

package dicescript

import (
	"math"

	"golang.org/x/exp/rand"
)

func init() {
	vHarnesses["VH_C05_sampler"] = VH_C05_sampler
	vHarnesses["VH_C05_modes"] = VH_C05_modes
	vHarnesses["VH_C05_lemma"] = VH_C05_lemma
}

// vC05Bound is the specification's acceptance bound for rejection sampling:
// A(n) = M - (M mod n) with M = 2^64-1, the largest multiple of n that is
// <= M.  Draws below A(n) are accepted.  When n divides 2^64 (n a power of
// two) accepting every draw is unbiased as well, and is also allowed.
func vC05Bound(n uint64) uint64 {
	const M = math.MaxUint64
	return M - M%n
}

//vh:prop=C05 tiers=quick,thorough unwind=6 solver=z3-new/int portfolio=cvc5/int,z3/bv,z3-new/bv bounds="n: one 64-bit symbol over the whole supported range [1, MaxInt64-1]; every generator output a fresh 64-bit symbol; rejection loop cut inductively (pure-iteration subsumption), so any number of rejections is covered"
func VH_C05_sampler() {
	src := &rand.PCGSource{}
	n := vInt64("n")
	vAssume(n >= 1)
	vAssume(n <= math.MaxInt64-1)
	r := Roll(src, IntType(n), 0)
	vReach("rolled")
	k := vDrawCount()
	vAssert(k >= 1, "O5.at-least-one-draw")
	vAssert(vDrawsFrom(src) == k, "O5.all-draws-from-src")
	vAssert(vGlobalRandUses() == 0, "O5.global-generator-unused")
	un := uint64(n)
	A := vC05Bound(un)
	isP := vIsPow2(un)
	// O2: the acceptance bound is a multiple of n and at least 2^63
	vAssert(A%un == 0, "O2.bound-multiple-of-n")
	vAssert(A >= 1<<63, "O2.bound-at-least-half-the-range")
	last := vDraw(k - 1)
	// O4: every draw before the last was rejected, and only draws >= A(n) may be rejected
	for i := 0; i < k-1; i++ {
		vAssert(vDraw(i) >= A, "O4.only-draws>=bound-are-rejected")
	}
	// O1: the accepted draw is below A(n), or n divides 2^64 and nothing was rejected
	vAssert(vOr(last < A, vAnd(isP, k == 1)), "O1.accepted-draw-below-bound")
	// O3: the result is (v mod n)+1 of the accepted draw, within [1,n]
	vAssert(vAnd(int64(r) >= 1, int64(r) <= n), "O3.result-in-range")
	vAssert(uint64(r) == last%un+1, "O3.result-is-accepted-draw-mod-n-plus-1")
}

//vh:prop=C05 tiers=quick,thorough bounds="mode switch: mode in {-1,+1} and n=0 for all 64-bit n"
func VH_C05_modes() {
	src := &rand.PCGSource{}
	n := vInt64("n")
	switch vChoice("case", 3) {
	case 0:
		vAssume(n >= 1)
		vAssert(Roll(src, IntType(n), -1) == 1, "O7.min-mode-returns-1")
	case 1:
		vAssume(n >= 1)
		vAssert(Roll(src, IntType(n), 1) == IntType(n), "O7.max-mode-returns-n")
	case 2:
		m := vInt("mode")
		vAssert(Roll(src, 0, m) == 0, "O7.zero-sides-returns-0")
	}
	vAssert(vDrawCount() == 0 && vGlobalRandUses() == 0, "O7.no-randomness-consumed")
}

// Lemma L (pure arithmetic, no code): for C a multiple of n, v -> (v div n,
// v mod n) is a bijection [0,C) -> [0,C/n) x [0,n): injective and onto.
//
//vh:prop=C05 tiers=quick,thorough solver=z3-new/int portfolio=cvc5/int,z3/bv bounds="counting lemma over 64-bit v,w,n,q,f with C = A(n); the case C = 2^64 (n a power of two, mask branch) is the same statement with div/mod by a power of two"
func VH_C05_lemma() {
	n := vUint64("n")
	vAssume(n >= 1)
	vAssume(n <= math.MaxInt64-1)
	C := vC05Bound(n)
	v, w := vUint64("v"), vUint64("w")
	vAssume(v < C)
	vAssume(w < C)
	// injective
	vAssert(vImplies(vAnd(v/n == w/n, v%n == w%n), v == w), "L.injective")
	// onto: any (q,f) with q < C/n, f < n is hit by q*n+f < C (no overflow since q*n+f < C <= 2^64-1)
	q, f := vUint64("q"), vUint64("f")
	vAssume(q < C/n)
	vAssume(f < n)
	x := q*n + f
	vAssert(vAnd(x < C, vAnd(x/n == q, x%n == f)), "L.onto")
}

// vIsPow2 enumerates the 63 powers of two below 2^63 (no bit tricks).
func vIsPow2(n uint64) bool {
	r := false
	for k := uint(0); k < 63; k++ {
		r = vOr(r, n == uint64(1)<<k)
	}
	return r
}

// a plain die written in a script, after other dice terms of the same program
var vC05VMProgs = []struct {
	src   string
	first int   // draws consumed by the terms before the plain die(s)
	fixed int64 // value of those terms when every draw is 0 (they are clamped or sorted below)
}{
	{"d20min20 + d(nn)", 1, 20},
	{"d20max1; d(nn)", 1, 0},
	{"d8min8 + d8min8 + d(nn)", 2, 16},
	{"[d6max1, d(nn)][1]", 1, 0},
	{"x = d4max1; y = d(nn); y", 1, 0},
	{"d(nn)", 0, 0},
}

func init() {
	vHarnesses["VH_C05_vm"] = VH_C05_vm
}

//vh:prop=C05 tiers=quick,thorough sigkeys=prog summaries=Roll:roll-contract solver=z3-new/int budget_s=600 bounds="a plain die d(nn) evaluated by the VM after other dice terms of the same program (terms clamped by min / max modifiers, in sums, statements, arrays, assignments), side count nn a 64-bit symbol in [1, 2^40], every generator output symbolic (Roll's contract, established by VH_C05_sampler): the die's value is exactly its own draw + 1 - no clamp, offset or state of an earlier term reaches it - so the script-level die inherits the sampler's uniformity"
func VH_C05_vm() {
	pr := vC05VMProgs[vChoice("prog", len(vC05VMProgs))]
	nn := vInt64("nn")
	vAssume(nn >= 1)
	vAssume(nn <= 1<<40)
	vm := vSeededVM()
	vm.Attrs.Store("nn", NewIntVal(IntType(nn)))
	err := vm.Run(pr.src)
	vReach("ran")
	vAssert(err == nil, "die-evaluates")
	if err != nil {
		return
	}
	vAssert(vDrawCount() == pr.first+1, "one-draw-per-die")
	vAssert(vDrawsFrom(vm.RandSrc) == vDrawCount(), "draws-from-the-context-generator")
	d := int64(vDraw(pr.first)) + 1
	vAssert(vAnd(d >= 1, d <= nn), "die-in-range")
	got, ok := vm.Ret.ReadInt()
	vAssert(ok, "integer-result")
	vAssert(int64(got) == pr.fixed+d, "script-die-is-its-own-draw-plus-1")
}

func init() {
	vHarnesses["VH_C05_pool"] = VH_C05_pool
}

//vh:prop=C05 tiers=quick,thorough unwind=8 solver=z3-new/int portfolio=cvc5/int,z3/bv budget_s=900 bounds="pools of 2..3 dice through RollCommon with the REAL sampler: side count a 64-bit symbol in [2, 2^40], every generator output a fresh symbol: at least one draw per die, and when no draw was rejected (all below A(n), exactly one per die) die i is exactly draw i mod n + 1 - successive dice are separate draws, not digits of one"
func VH_C05_pool() {
	src := &rand.PCGSource{}
	times := 2 + vChoice("times", 2)
	n := vInt64("n")
	vAssume(n >= 2)
	vAssume(n <= 1<<40)
	_, text := RollCommon(src, IntType(times), IntType(n), nil, nil, 0, 0, 0, 0)
	vReach("rolled")
	k := vDrawCount()
	vAssert(k >= times, "one-draw-per-die-at-least")
	vAssert(vDrawsFrom(src) == k, "draws-from-given-source")
	shown := vStrInts(text)
	vAssert(len(shown) == times, "every-die-shown")
	if k != times || len(shown) != times {
		return // a draw was rejected and redrawn: covered by VH_C05_sampler per die
	}
	A := vC05Bound(uint64(n))
	for i := 0; i < times; i++ {
		d := vDraw(i)
		vAssert(vImplies(d < A, uint64(shown[i]) == d%uint64(n)+1), "die-i-is-its-own-draw-mod-n-plus-1")
	}
}
