//go:build verif

package dicescript

func init() {
	vHarnesses["VH_C16_gate"] = VH_C16_gate
	vHarnesses["VH_C16_gate_dice"] = VH_C16_gate_dice
	vHarnesses["VH_C16_macro"] = VH_C16_macro
	vHarnesses["VH_C16_st"] = VH_C16_st
}

func vC16Check(vm *Context, wod, coc, fate, dc, noStmts, noNDice, noBit bool) {
	vWalkCode(vm.code, vm.codeIndex, 0, func(c ByteCode, pc int, n int) {
		switch c.T {
		case typeDiceWod, typeWodSetInit, typeWodSetPool, typeWodSetPoints, typeWodSetThreshold, typeWodSetThresholdQ:
			vAssert(wod, "wod-opcode-only-when-WoD-enabled")
		case typeDiceCocBonus, typeDiceCocPenalty:
			vAssert(coc, "coc-opcode-only-when-CoC-enabled")
		case typeDiceFate:
			vAssert(fate, "fate-opcode-only-when-Fate-enabled")
		case typeDiceDC, typeDCSetInit, typeDCSetPool, typeDCSetPoints:
			vAssert(dc, "dc-opcode-only-when-DoubleCross-enabled")
		case typeBlockPush, typeBlockPop, typePushFunction, typeReturn:
			vAssert(!noStmts, "no-block/function/return-when-statements-disabled")
		case typeJmp:
			if off, ok := c.Value.(IntType); ok && off < 0 {
				vAssert(!noStmts, "no-backward-jump-when-statements-disabled")
			}
		case typePushDefaultExpr:
			vAssert(!noNDice, "no-default-sides-dice-when-NDice-disabled")
		case typeBitwiseAnd, typeBitwiseOr:
			vAssert(!noBit, "no-bitwise-op-when-disabled")
		}
	})
}

func vC16Run(src []byte) {
	vm := NewVM()
	// Two flag groups: either the four family flags are symbolic (statement
	// and operator switches at their defaults) or the three Disable* switches
	// are symbolic (all families enabled).
	wod, coc, fate, dc := true, true, true, true
	noStmts, noNDice, noBit := false, false, false
	if vChoice("flaggroup", 2) == 0 {
		wod, coc, fate, dc = vBool("EnableDiceWoD"), vBool("EnableDiceCoC"), vBool("EnableDiceFate"), vBool("EnableDiceDoubleCross")
	} else {
		noStmts, noNDice, noBit = vBool("DisableStmts"), vBool("DisableNDice"), vBool("DisableBitwiseOp")
	}
	vm.Config.EnableDiceWoD, vm.Config.EnableDiceCoC, vm.Config.EnableDiceFate, vm.Config.EnableDiceDoubleCross = wod, coc, fate, dc
	vm.Config.DisableStmts, vm.Config.DisableNDice, vm.Config.DisableBitwiseOp = noStmts, noNDice, noBit
	err := vm.Parse(string(src))
	vReach("parsed")
	if err != nil {
		return
	}
	vC16Check(vm, wod, coc, fate, dc, noStmts, noNDice, noBit)
	// the VM's own configuration is untouched by parsing
	vAssert(vm.Config.EnableDiceWoD == wod, "config-unchanged")
	vAssert(vm.Config.EnableDiceCoC == coc, "config-unchanged")
	vAssert(vm.Config.EnableDiceFate == fate, "config-unchanged")
	vAssert(vm.Config.EnableDiceDoubleCross == dc, "config-unchanged")
}

//vh:prop=C16 tiers=quick,thorough overrides=formatFriendlyError unwind=400 unwind_ok=1 budget_s=1500 quick:P.n=2 thorough:P.n=3 bounds="every source text of exactly n bytes over all of ASCII 0x00-0x7F (n=2 quick, n=3 thorough; shorter texts arise as prefixes followed by a rejected or ignored byte) through the real PEG engine; flags in two groups: the four Enable* flags symbolic booleans with the Disable* switches off, or DisableStmts/DisableNDice/DisableBitwiseOp symbolic with all families on; the solver decides per spelling which flag values admit each opcode; syntax-error formatting stubbed"
func VH_C16_gate() {
	vC16Run(vSymSource("b", vParam("n", 2), ""))
}

//vh:prop=C16 tiers=quick,thorough overrides=formatFriendlyError unwind=400 unwind_ok=1 budget_s=1500 quick:P.n=3 thorough:P.n=4 bounds="source texts of exactly n bytes (3 quick, 4 thorough) over the dice alphabet {a b c f p d k m q A F 1 2 ( ) space newline ; x} with symbolic flags (as VH_C16_gate)"
func VH_C16_gate_dice() {
	vC16Run(vSymSource("b", vParam("n", 3), "abcfpdkmqAF12() \n;x"))
}

var vC16MacroProgs = []string{
	"// #EnableDice wod true\n2a5", "// #EnableDice coc true\nb2", "// #EnableDice fate true\nf", "// #EnableDice doublecross true\n2c5",
	"// #EnableDice wod false\n2a5", "// #EnableDice coc false\nb2", "// #EnableDice fate false\nf", "// #EnableDice doublecross false\n2c5",
	"1;// #EnableDice wod true\n2a5", "2a5 // #EnableDice wod true\n", "// #EnableDice bogus true\n2a5",
	// the macro input parses but fails while running
	"// #EnableDice coc true\nb2 / 0", "// #EnableDice fate true\nf + []", "// #EnableDice wod true\n2a5 + nosuchvar.x", "// #EnableDice doublecross true\n2c5 % 0",
	"// #EnableDice coc false\n1 / 0", "// #EnableDice wod true\n[1][5]",
	// the macro run rolls a die with omitted sides (the default-sides expression is compiled on demand)
	"// #EnableDice fate true\nd", "// #EnableDice coc true\nd + 1", "// #EnableDice wod true\n2d", "// #EnableDice doublecross true\nd",
}

// default-sides expressions for VH_C16_macro: unset, a number, and one gated dice family each
var vC16DefaultSides = []string{"", "6", "f", "b2", "2a5", "2c5"}

//vh:prop=C16 tiers=quick,thorough budget_s=900 sigkeys=prog,default-sides bounds="21 programs with an #EnableDice macro in leading / middle / trailing position for each family (6 of them fail at run time after the macro took effect, 4 roll a die with omitted sides), initial flags symbolic, DefaultDiceSideExpr in {unset, 6, f, b2, 2a5, 2c5}: the macro changes only that evaluation; Config is field-for-field unchanged afterwards and a following macro-free evaluation - parsed at top level, compiled on demand through RunExpr, or a bare d using the default-sides expression - behaves as on a VM with the same configuration that never saw a macro"
func VH_C16_macro() {
	k := vChoice("prog", len(vC16MacroProgs))
	vm := NewVM()
	wod, coc, fate, dc := vBool("EnableDiceWoD"), vBool("EnableDiceCoC"), vBool("EnableDiceFate"), vBool("EnableDiceDoubleCross")
	vm.Config.EnableDiceWoD, vm.Config.EnableDiceCoC, vm.Config.EnableDiceFate, vm.Config.EnableDiceDoubleCross = wod, coc, fate, dc
	vm.Config.DiceMinMode = true
	dflt := vC16DefaultSides[vChoice("default-sides", len(vC16DefaultSides))]
	vm.Config.DefaultDiceSideExpr = dflt
	_ = vm.Run(vC16MacroProgs[k])
	vReach("ran")
	vAssert(vm.Config.EnableDiceWoD == wod, "macro-does-not-alter-VM-config")
	vAssert(vm.Config.EnableDiceCoC == coc, "macro-does-not-alter-VM-config")
	vAssert(vm.Config.EnableDiceFate == fate, "macro-does-not-alter-VM-config")
	vAssert(vm.Config.EnableDiceDoubleCross == dc, "macro-does-not-alter-VM-config")
	follow := []string{"2a5", "b2", "f", "2c5"}
	// a later evaluation without macro sees the configured flags only - first
	// where the text is compiled on demand: as an expression in a sub-VM
	// (RunExpr, directly after the macro run) and, below, as the default-sides
	// expression of a bare 'd'.
	// It must behave as on a VM with the same configuration that never saw a macro.
	fresh := NewVM()
	fresh.Config.EnableDiceWoD, fresh.Config.EnableDiceCoC, fresh.Config.EnableDiceFate, fresh.Config.EnableDiceDoubleCross = wod, coc, fate, dc
	fresh.Config.DiceMinMode = true
	fresh.Config.DefaultDiceSideExpr = dflt
	show := func(v *VMValue, err error) string {
		if err != nil {
			return "error" // (Ret keeps the previous value then)
		}
		if v != nil {
			return v.ToRepr()
		}
		return ""
	}
	for _, src := range follow {
		v1, e1 := vm.RunExpr(src, false)
		v2, e2 := fresh.RunExpr(src, false)
		vAssert(show(v1, e1) == show(v2, e2), "on-demand-expression-after-a-macro-run-behaves-as-configured")
	}
	// ... and parsed at top level
	flags := []bool{wod, coc, fate, dc}
	for i, src := range follow {
		if err := vm.Parse(src); err == nil {
			vC16Check(vm, wod, coc, fate, dc, false, false, false)
			_ = flags[i]
		}
	}
	e1 := vm.Run("d + 2d")
	e2 := fresh.Run("d + 2d")
	vAssert(show(vm.Ret, e1) == show(fresh.Ret, e2), "default-sides-dice-after-a-macro-run-behave-as-configured")
}

// what precedes the tested value in an st command: the value is the first
// item, follows one or two plain items (whose values are parsed with the
// flags pushed and popped), a computed item, or is a modification amount
var vC16StPrefixes = []string{
	"^stxx", "^stxx1 yy", "^stxx1 zz2,yy", "^st&xx=1 yy", "^stxx=3 yy:", "^stxx+1 yy+", "^stxx1 &yy=", "^stxx1yy2 zz",
}

var vC16StValues = []string{
	"2d", "1|2", "1&2", "2a5", "b2", "f", "2c5", "p", "2a5k2",
	"`{% if 1 {2} %}`", "`{% func fn1(){1}; fn1() %}`", "`{% i=0; while i<3 {i=i+1}; i %}`", "`{2d}`", "`{1|2}`",
}

//vh:prop=C16 tiers=quick,thorough overrides=formatFriendlyError unwind=400 unwind_ok=1 budget_s=1500 quick:P.n=2 thorough:P.n=3 bounds="st commands: a parenthesised value in 8 positions (first item, after one or two plain items, after a computed item, after ':', as a modification amount, as a computed item's expression, after an item without separator) holding one of 14 gated constructs (default-sides dice, bitwise operators, each dice family, template holes with if / function / loop) or n symbolic bytes (2 quick, 3 thorough) over {a b c f p d 1 2 | &}; flags symbolic as in VH_C16_gate"
func VH_C16_st() {
	pre := vC16StPrefixes[vChoice("prefix", len(vC16StPrefixes))]
	var src []byte
	src = append(src, pre...)
	src = append(src, '(')
	if vChoice("inner", 2) == 0 {
		src = append(src, vC16StValues[vChoice("value", len(vC16StValues))]...)
	} else {
		src = append(src, vSymSource("b", vParam("n", 2), "abcfpd12|&")...)
	}
	src = append(src, ')')
	vC16Run(src)
}

// the same text evaluated again on the same VM after the host tightened the
// configuration: nothing compiled under the old flags may be reused
var vC16RerunTexts = []string{
	"i = 0; while i < 2 { i = i + 1 }; i", "if 1 { 2 } else { 3 }", "func fn1() { 1 }; fn1()", "1 | 2", "3 & 1", "2d", "2a5", "b2", "f", "2c5", "`{% if 1 { 2 } %}`",
}

func init() {
	vHarnesses["VH_C16_rerun"] = VH_C16_rerun
}

//vh:prop=C16 tiers=quick,thorough sigkeys=text budget_s=600 bounds="11 texts (loop, branch, function, bitwise operators, default-sides dice, each dice family, a template with a statement block) parsed on a VM with everything enabled, then parsed again - byte-identical - on the same VM after all seven flags were set to symbolic booleans: the second compilation obeys the new flags (opcode => flag, as in VH_C16_gate) and a third parse after restoring the first configuration succeeds again"
func VH_C16_rerun() {
	src := vC16RerunTexts[vChoice("text", len(vC16RerunTexts))]
	vm := vNewVM()
	vm.Config.DiceMinMode = true
	vAssert(vm.Run(src) == nil, "text-evaluates-with-everything-enabled")
	wod, coc, fate, dc := vBool("EnableDiceWoD"), vBool("EnableDiceCoC"), vBool("EnableDiceFate"), vBool("EnableDiceDoubleCross")
	noStmts, noNDice, noBit := vBool("DisableStmts"), vBool("DisableNDice"), vBool("DisableBitwiseOp")
	vm.Config.EnableDiceWoD, vm.Config.EnableDiceCoC, vm.Config.EnableDiceFate, vm.Config.EnableDiceDoubleCross = wod, coc, fate, dc
	vm.Config.DisableStmts, vm.Config.DisableNDice, vm.Config.DisableBitwiseOp = noStmts, noNDice, noBit
	err := vm.Parse(src)
	vReach("reparsed")
	if err == nil {
		vC16Check(vm, wod, coc, fate, dc, noStmts, noNDice, noBit)
	}
	vm.Config.EnableDiceWoD, vm.Config.EnableDiceCoC, vm.Config.EnableDiceFate, vm.Config.EnableDiceDoubleCross = true, true, true, true
	vm.Config.DisableStmts, vm.Config.DisableNDice, vm.Config.DisableBitwiseOp = false, false, false
	vAssert(vm.Run(src) == nil, "text-evaluates-again-with-everything-enabled")
}

func init() {
	vHarnesses["VH_C16_failing_run"] = VH_C16_failing_run
}

// evaluations that fail at run time in the middle of something that adjusts
// flags temporarily (the default-sides expression, st values, macros)
var vC16FailingRuns = []struct{ dflt, prelude, src string }{
	{"面数", "&面数 = 1/0", "2d"},
	{"nosuch.x", "", "d + 1"},
	{"[1][5]", "", "2d"},
	{"", "", "^st力量(1/0) 敏捷5"},
	{"", "", "// #EnableDice wod true\n2a5 + [1][5]"},
	{"", "", "`{% 1/0 %}`"},
	{"", "", "func fn1() { 1/0 }; fn1()"},
}

//vh:prop=C16 tiers=quick,thorough sigkeys=case budget_s=600 bounds="7 evaluations that fail at run time inside a construct that adjusts flags temporarily (a failing default-sides expression, an st value, a macro program, a template block, a function), all seven flags symbolic booleans: the VM's Config is field-for-field unchanged after the failed run, and a following parse of gated texts (loop, function, bitwise operator, default-sides dice, each family) obeys the configured flags"
func VH_C16_failing_run() {
	c := vC16FailingRuns[vChoice("case", len(vC16FailingRuns))]
	vm := NewVM()
	wod, coc, fate, dc := vBool("EnableDiceWoD"), vBool("EnableDiceCoC"), vBool("EnableDiceFate"), vBool("EnableDiceDoubleCross")
	noStmts, noNDice, noBit := vBool("DisableStmts"), vBool("DisableNDice"), vBool("DisableBitwiseOp")
	vm.Config.EnableDiceWoD, vm.Config.EnableDiceCoC, vm.Config.EnableDiceFate, vm.Config.EnableDiceDoubleCross = wod, coc, fate, dc
	vm.Config.DisableStmts, vm.Config.DisableNDice, vm.Config.DisableBitwiseOp = noStmts, noNDice, noBit
	vm.Config.DefaultDiceSideExpr = c.dflt
	vm.Config.DiceMinMode = true
	vm.Config.CallbackSt = func(string, string, *VMValue, *VMValue, string, string) {}
	if c.prelude != "" {
		_ = vm.Run(c.prelude)
	}
	_ = vm.Run(c.src)
	vReach("ran")
	vAssert(vm.Config.EnableDiceWoD == wod && vm.Config.EnableDiceCoC == coc && vm.Config.EnableDiceFate == fate && vm.Config.EnableDiceDoubleCross == dc, "family-flags-unchanged-by-a-failed-run")
	vAssert(vm.Config.DisableStmts == noStmts && vm.Config.DisableNDice == noNDice && vm.Config.DisableBitwiseOp == noBit, "disable-flags-unchanged-by-a-failed-run")
	for _, src := range []string{"i = 0; while i < 2 { i = i + 1 }", "func fn2() { 1 }; fn2()", "1 | 2", "2d", "2a5", "b2", "f", "2c5", "if 1 { 2 }"} {
		if err := vm.Parse(src); err == nil {
			vC16Check(vm, wod, coc, fate, dc, noStmts, noNDice, noBit)
		}
	}
}
