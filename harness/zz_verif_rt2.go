//go:build verif

package dicescript

import (
	"math"
	"strconv"
)

func float64frombits(b uint64) float64 { return math.Float64frombits(b) }

// Non-short-circuit connectives: one term in the engine, no path forks.
func vOr(a, b bool) bool      { return a || b }
func vAnd(a, b bool) bool     { return a && b }
func vImplies(a, b bool) bool { return !a || b }
func vIteInt64(c bool, x, y int64) int64 {
	if c {
		return x
	}
	return y
}

// vSetMapOrder: engine-only control of Go map iteration order (0 forward,
// 1 reversed insertion order); natively Go randomises by itself.
func vSetMapOrder(k int) {}

// vJSONInt renders x as a JSON number (the engine uses a sentinel literal
// that stands for the symbolic value).
func vJSONInt(x int64) string { return strconv.FormatInt(x, 10) }

func vInf() float64 { return math.Inf(1) }
func vNaN() float64 { return math.NaN() }
