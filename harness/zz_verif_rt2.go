//go:build verif

package dicescript

import (
	"math"
	"strconv"
	"sync"
)

func float64frombits(b uint64) float64 { return math.Float64frombits(b) }

// Non-short-circuit connectives: one term in the engine, no path forks.
func vOr(a, b bool) bool      { return a || b }
func vAnd(a, b bool) bool     { return a && b }
func vImplies(a, b bool) bool { return !a || b }
func vIteInt64(c bool, x, y int64) int64 {
	if c {
		return x
	}
	return y
}

// vSetMapOrder: engine-only control of Go map iteration order (0 forward,
// 1 reversed insertion order); natively Go randomises by itself.
func vSetMapOrder(k int) {}

// vJSONInt renders x as a JSON number (the engine uses a sentinel literal
// that stands for the symbolic value).
func vJSONInt(x int64) string { return strconv.FormatInt(x, 10) }

func vInf() float64 { return math.Inf(1) }
func vNaN() float64 { return math.NaN() }

// Footprint intrinsics (engine only).  Natively vConcurrently runs the body
// on two goroutines repeatedly so that the race detector (go test -race,
// used for the replay of footprint findings) can confirm a shared write.
func vFootprintBegin()          {}
func vSharedWrites() int        { return 0 }
func vSharedWriteNames() string { return "" }
func vConcurrently(f func()) {
	if vSymbolic() {
		f()
		return
	}
	var wg sync.WaitGroup
	for g := 0; g < 2; g++ {
		wg.Add(1)
		go func() {
			defer wg.Done()
			for i := 0; i < 40; i++ {
				f()
			}
		}()
	}
	wg.Wait()
}
func vCheck(c bool, tag string) { vAssert(c, tag) }
