//go:build verif

package dicescript

import "strings"

func init() {
	vHarnesses["VH_C01_src"] = VH_C01_src
	vHarnesses["VH_C01_ops2"] = VH_C01_ops2
	vHarnesses["VH_C01_ops1"] = VH_C01_ops1
	vHarnesses["VH_C01_ops3"] = VH_C01_ops3
	vHarnesses["VH_C01_cap"] = VH_C01_cap
	vHarnesses["VH_C01_longline"] = VH_C01_longline
	vHarnesses["VH_C01_cycles"] = VH_C01_cycles
	vHarnesses["VH_C01_srcfmt"] = VH_C01_srcfmt
	vHarnesses["VH_C01_history"] = VH_C01_history
	vHarnesses["VH_C01_lazyrec"] = VH_C01_lazyrec
}

// Templates: one per VM opcode / builtin / method reachable from syntax,
// operands supplied by variables x, y, z bound to vSymValue.
var vOps1 = []string{
	"-x", "+x", "x", "x()", "x.a", "x.len", "x[0]", "x[-1]", "x[0:1]", "x[:]",
	"xdx", "(x)d6", "d(x)", "2d(x)", "b(x)", "p(x)", "(x)a10", "2a(x)", "(x)c10", "2c(x)", "f", "x ?? 1",
	"2d6k(x)", "2d6q(x)", "2d6kh(x)", "2d6kl(x)", "2d6dh(x)", "2d6dl(x)", "2d6min(x)", "2d6max(x)",
	"4a10m(x)", "4a10k(x)", "4a10q(x)", "4c8m(x)",
	"`a{x}b`", "`{% x %}`", "[x, 2]kh", "[x, 1, 3]kl", "[x,2].kh(1)", "[x, 'w', 2]kh3", "[x, null].kl(2)", "['w', x].kh(x)",
	"ceil(x)", "floor(x)", "round(x)", "toInt(x)", "toFloat(x)", "toStr(x)", "toBool(x)", "repr(x)", "abs(x)", "typeId(x)", "dir(x)",
	"load(x)", "loadRaw(x)", "x.sum()", "x.len()", "x.shuffle()", "x.rand()", "x.randSize(2)", "x.pop()", "x.shift()",
	"x.push(1)", "x.keys()", "x.values()", "x.items()", "x.compute()", "x.kh()", "x.kl()", "x.kh(2)",
	"x ? 1 : 2", "x ? 1, 0 ? 2, 3", "if x { 1 } else { 2 }", "i = 0; while x { i = i + 1; if i > 2 { break } }; i",
	"&v1 = x + 1; v1", "func fn1(n) { return n + x }; fn1(1)", "func fn1() { d + x }; fn1()", "&v1 = 2d + x; v1", "func fn1() { (x)d }; fn1() + fn1()", "x.a = 1; x", "x[0] = 1; x", "x[0:1] = [5]; x",
	"[x..3]", "[3..x]", "[x]*2", "[1,2]*x", "x * [1]", "{x: 1}", "{'k': x}.k", "!x",
}

var vOps2 = []string{
	"x+y", "x-y", "x*y", "x/y", "x%y", "x**y", "x==y", "x!=y", "x<y", "x<=y", "x>y", "x>=y", "x&y", "x|y",
	"x && y", "x || y", "x ?? y", "x[y]", "x[y] = 1; x", "x[y :]", "x[: y]", "[x..y]", "(x)d(y)", "x.kh(y)", "x.kl(y)", "x.randSize(y)",
	"(x)a(y)", "(x)c(y)", "store(x, y)", "x(y)", "x.push(y); x", "2d(x)k(y)", "(x)d6min(y)",
}

var vOps3 = []string{
	"x[y : z]", "x[y] = z; x", "x[y : z] = [1]; x", "x ? y : z", "(x)a(y)m(z)", "(x)c(y)m(z)", "(x)d(y)k(z)", "(x)a(y)k(z)", "(x)a(y)q(z)",
	"(x)d(y)min(z)", "(x)d(y)max(z)",
}

func vRunTemplate(src string, nvars int, depth int) {
	vm := vNewVM()
	names := []string{"x", "y", "z"}
	for i := 0; i < nvars; i++ {
		vm.Attrs.Store(names[i], vSymValue(names[i], depth))
	}
	// configuration flags are symbolic: the path forks only where the VM reads them
	vm.Config.IgnoreDiv0 = vBool("IgnoreDiv0")
	vm.Config.DiceMinMode = vBool("DiceMinMode")
	vm.Config.DiceMaxMode = vBool("DiceMaxMode")
	vm.Config.OpCountLimit = 30000
	err := vm.Run(src)
	vReach("ran")
	vObserveAll(vm, err)
	if vParam("history", 0) == 1 {
		// a second evaluation on the same VM (prior variable state)
		err = vm.Run("x")
		vObserveAll(vm, err)
	}
}

//vh:prop=C01 tiers=quick,thorough sigkeys=template,x_kind,y_kind,z_kind unwind=3 unwind_ok=1 summaries=Roll:roll-contract maxsteps=8000000 budget_s=900 quick:P.depth=0 thorough:P.depth=1 thorough:P.history=1 bounds="every one-operand template (one per opcode/builtin/method) with the operand ranging over all script value kinds (quick: scalars int/float/string/null; thorough: also arrays, dicts, computed, functions, native functions; containers <=2 elements, depth 1), integer and float payloads symbolic (64-bit / Float64); loops whose trip count is a symbolic value are unrolled 3 times and allocations of symbolic size are followed up to 8 elements (deeper continuations cut and counted); dice are Roll contract values; IgnoreDiv0 symbolic, min/max dice mode symbolic booleans, op budget 30000; all observers afterwards (thorough: and a second Run on the same VM)"
func VH_C01_ops1() {
	t := vParam("template", -1)
	if t < 0 {
		t = vChoice("template", len(vOps1))
	}
	vRunTemplate(vOps1[t], 1, vParam("depth", 0))
}

//vh:prop=C01 tiers=quick,thorough sigkeys=template,x_kind,y_kind,z_kind unwind=3 unwind_ok=1 summaries=Roll:roll-contract maxsteps=8000000 budget_s=1500 quick:P.depth=0 thorough:P.depth=1 thorough:P.history=1 bounds="every two-operand template with both operands over all value kinds (as VH_C01_ops1)"
func VH_C01_ops2() {
	t := vParam("template", -1)
	if t < 0 {
		t = vChoice("template", len(vOps2))
	}
	vRunTemplate(vOps2[t], 2, vParam("depth", 0))
}

//vh:prop=C01 tiers=quick,thorough sigkeys=template,x_kind,y_kind,z_kind unwind=3 unwind_ok=1 summaries=Roll:roll-contract maxsteps=8000000 budget_s=1500 P.depth=0 bounds="three-operand templates, operands over scalar kinds"
func VH_C01_ops3() {
	t := vParam("template", -1)
	if t < 0 {
		t = vChoice("template", len(vOps3))
	}
	vRunTemplate(vOps3[t], 3, vParam("depth", 0))
}

func vRepeat(s string, n int) string {
	out := ""
	for i := 0; i < n; i++ {
		out += s
	}
	return out
}

// Capacity boundaries (concrete programs, no symbols): 19/20/21 nested
// blocks, template holes, loops with continue/break inside if, long array
// literals, parse budget, recursion under a budget.
//
//vh:prop=C01 tiers=quick,thorough sigkeys=prog maxdepth=60000 maxsteps=400000000 budget_s=900 bounds="concrete boundary programs: nesting 19/20/21/22 of if/while/template holes, continue/break inside if x25 iterations, array literal 511/512/513, parse budget 10, recursion with op budget 30000, 8190..8194 instructions, over-long function / computed bodies of variable loads inside a ternary"
func VH_C01_cap() {
	var progs []string
	for _, n := range []int{19, 20, 21, 22} {
		progs = append(progs, vRepeat("if 1 { ", n)+"1"+vRepeat(" }", n))
		progs = append(progs, "i=0;"+vRepeat("while i<1 { ", n)+"i=i+1"+vRepeat(" }", n))
		progs = append(progs, vRepeat("`{", n)+"1"+vRepeat("}`", n))
		progs = append(progs, vRepeat("`{% ", n)+"1"+vRepeat(" %}`", n))
	}
	progs = append(progs,
		"i=0; while i<25 { i=i+1; if 1 { continue } }; i",
		"i=0; while i<25 { i=i+1; if i<30 { if 1 { continue } } }; i",
		"i=0; j=0; while j<25 { j=j+1; i=0; while i<3 { i=i+1; if 1 { break } } }; j",
		"func fn1() { fn1() }; fn1()",
		"func fn1(n) { if n > 0 { return fn1(n-1) + 1 }; return 0 }; fn1(400)",
		"&v1 = v1 + 1; v1",
		"v1 = [1]; while 1 { v1 = v1 + v1 }",
		"s = 'x'; i = 0; while i < 12 { s = s + s; i = i + 1 }; 1",
	)
	for _, n := range []int{511, 512, 513} {
		progs = append(progs, "["+vRepeat("1,", n-1)+"1]")
	}
	// over-long bodies whose jump patches land on the last slot of the full buffer (a detail mark)
	for _, n := range []int{2731, 2734} {
		progs = append(progs, "func fn1() { 1 ? ("+vRepeat("x+", n)+"1) : 2 }; fn1()")
		progs = append(progs, "&v1 = 1 ? ("+vRepeat("x+", n)+"1) : 2; v1")
	}
	for _, n := range []int{2729, 2730, 2731} { // 3 instructions per "+1": around the 8192 code cap
		progs = append(progs, "1"+vRepeat("+1", n))
	}
	k := vChoice("prog", len(progs))
	vm := vNewVM()
	vm.Config.OpCountLimit = 30000
	if vChoice("parsebudget", 2) == 1 {
		vm.Config.ParseExprLimit = 10
	}
	err := vm.Run(progs[k])
	vReach("ran")
	vObserveAll(vm, err)
}

// recursion through code that is compiled on demand (the callee's VM is
// created by the call): default-sides expressions that roll a default-sides
// die again, and function / computed values built by the host without code
//
//vh:prop=C01 tiers=quick,thorough sigkeys=case depth_is_violation=1 maxdepth=4000 maxsteps=300000000 budget_s=900 bounds="endless recursion through code compiled on demand - default-sides expressions 'd', 'x || d' and a script function that rolls d; function and computed values built by the host without code; RunExpr - under op budget 3000: the evaluation ends with an error within 4000 Go frames (the unchanged code needs < 600), never with stack exhaustion"
func VH_C01_lazyrec() {
	lazy := []struct{ dflt, prelude, src string }{
		{"d", "", "d"},
		{"x || d", "", "2d + 1"},
		{"面数()", "func 面数() { return d }", "d"},
		{"", "#fn", "fn2()"},
		{"", "#computed", "v2"},
		{"", "#runexpr", ""},
	}
	lz := lazy[vChoice("case", len(lazy))]
	vm := vNewVM()
	vm.Config.OpCountLimit = 3000
	vm.Config.DefaultDiceSideExpr = lz.dflt
	switch lz.prelude {
	case "":
	case "#fn":
		vm.Attrs.Store("fn2", NewFunctionValRaw(&FunctionData{Expr: "fn2() + 1", Name: "fn2"}))
	case "#computed":
		vm.Attrs.Store("v2", NewComputedVal("v2 + 1"))
	case "#runexpr":
		vm.Attrs.Store("fn2", NewFunctionValRaw(&FunctionData{Expr: "fn2() + 1", Name: "fn2"}))
		_, err := vm.RunExpr("fn2() + fn2()", false)
		vReach("ran")
		vAssert(err != nil, "endless-recursion-ends-with-the-budget-error")
		vObserveAll(vm, err)
		return
	default:
		_ = vm.Run(lz.prelude)
	}
	err := vm.Run(lz.src)
	vReach("ran")
	vAssert(err != nil, "endless-recursion-ends-with-the-budget-error")
	vObserveAll(vm, err)
}

// what a host does between user messages: evaluate, show, evaluate the next
// text on the same VM (which may fail to parse or fail while running), show
var vC01HistFirst = []string{"4d6kh3 + 2d4", "x = 5; x + 2d6", "`a{2d6}b`", "func fn1() { 2d6 }; fn1() + d20", "&v1 = 2d6; v1 + 1", "1 + 2"}
var vC01HistSecond = []string{"(", "1/0", "[1][5]", "x.y.z", "7", "7 +", "", "d", "'", "nosuch(1)", "2d6", "v1", "^st力量60"}

//vh:prop=C01 tiers=quick,thorough sigkeys=first,second,third,api summaries=Roll:roll-contract unwind=6 unwind_ok=1 budget_s=900 thorough:P.third=1 bounds="histories on one VM: one of 6 programs that record process-text spans (dice, variables, templates, functions, computed values), then one of 13 follow-up texts through Run or through Parse + RunAfterParsed (the second called whatever the first returned) (syntax errors, run-time errors, the empty text, shorter and longer programs, an st command), then (thorough) a third text; all observers after every step, dice symbolic Roll-contract values"
func VH_C01_history() {
	vm := vNewVM()
	vm.Config.OpCountLimit = 30000
	vm.Config.CallbackSt = func(string, string, *VMValue, *VMValue, string, string) {}
	err := vm.Run(vC01HistFirst[vChoice("first", len(vC01HistFirst))])
	vObserveAll(vm, err)
	second := vC01HistSecond[vChoice("second", len(vC01HistSecond))]
	if vChoice("api", 2) == 1 {
		// the two-step API, the second step taken whatever the first returned
		_ = vm.Parse(second)
		vObserveAll(vm, vm.Error)
		err = vm.RunAfterParsed()
	} else {
		err = vm.Run(second)
	}
	vReach("second")
	vObserveAll(vm, err)
	if vParam("third", 0) == 1 {
		err = vm.Run(vC01HistSecond[vChoice("third", len(vC01HistSecond))])
		vObserveAll(vm, err)
	}
}

//vh:prop=C01 tiers=quick,thorough sigkeys=lang unwind=400 unwind_ok=1 lencap=16 budget_s=1500 quick:P.n=3 thorough:P.n=4 bounds="every source text of exactly n bytes (3 quick, 4 thorough) over {( [ & 1 . , + newline space} parsed with the real syntax-error formatter (not stubbed) under the three language settings, through Parse, and through RunExpr in a sub-VM: no panic while the error text is built (positions at a line break, column 0, end of input)"
func VH_C01_srcfmt() {
	src := string(vSymSource("b", vParam("n", 3), "([&1.,+\n "))
	vm := NewVM()
	vm.Config.ParseErrorLanguage = vChoice("lang", 3)
	err := vm.Parse(src)
	vReach("parsed")
	if err != nil {
		_ = err.Error()
		_ = vm.GetErrorText()
		_, e2 := vm.RunExpr(src, false)
		if e2 != nil {
			_ = e2.Error()
		}
	}
}

// values that contain themselves (scripts can build them by assignment)
var vC01CycleSetups = []string{
	"x = [1]; x[0] = x; y = x",
	"x = {'a': 1}; x.a = x; y = x",
	"x = [1]; y = [x]; x[0] = y",
	"x = {}; x.__proto__ = x; y = x",
	"x = {}; y = {}; x.__proto__ = y; y.__proto__ = x",
	"x = [1]; x[0] = x; y = [1]; y[0] = y",
	"x = {'a': 1}; x.a = x; y = {'a': 1}; y.a = y",
	"x = {'k': [1]}; x.k[0] = x; y = [x, x]",
	"x = [1, 2]; x[0] = x; y = [1, 3]; y[0] = y",
}
var vC01CycleOps = []string{
	"x == x", "x == y", "x != y", "x == [1]", "[x] == [y]", "{'k': x} == {'k': y}", "toStr(x)", "repr(y)", "`{x}`", "x + x", "x * 2", "x.len()",
	"x.q", "x.q = 1; x.q", "x[0]", "x[0][0][0]", "-x", "x ? 1 : 2", "x.sum()", "x.keys()", "x.kh()", "x.pop()", "x[0:1]", "dir(x)", "typeId(x)",
	"x ?? 1", "load('x')", "x.shuffle()", "x.rand()", "x.items()", "x.values()", "[x, y].kh(1)", "x < y", "x && y", "x.a.a.a", "y.__proto__.q",
}

//vh:prop=C01 tiers=quick,thorough sigkeys=setup,op summaries=Roll:roll-contract unwind=6 unwind_ok=1 depth_is_violation=1 maxdepth=5000 hang_is_violation=1 maxsteps=60000000 budget_s=900 bounds="9 ways a script builds self-referential values (array / dict containing itself, two-node cycles, __proto__ cycles of length 1 and 2, pairs of isomorphic cycles) x 36 operations on them (equality in 6 forms, printing, templates, arithmetic, attribute read / write, indexing, every array / dict method, builtins), op budget 30000, all observers afterwards: returns within 60 M interpreted steps and 5000 Go frames with a value or an error"
func VH_C01_cycles() {
	vm := vNewVM()
	vm.Config.OpCountLimit = 30000
	err := vm.Run(vC01CycleSetups[vChoice("setup", len(vC01CycleSetups))])
	if err != nil {
		return
	}
	err = vm.Run(vC01CycleOps[vChoice("op", len(vC01CycleOps))])
	vReach("ran")
	vObserveAll(vm, err)
}

//vh:prop=C01 tiers=quick,thorough sigkeys=runes,tail,lang budget_s=600 bounds="rejected one-line texts '(' + k CJK characters (k = 15..62, i.e. 46..187 bytes: below, at and above the 60-byte limit at which the quoted line is truncated, with fewer and more than 57 characters) + one of 3 tails, 3 languages, through Parse and RunExpr: the error text is built without a panic"
func VH_C01_longline() {
	k := 15 + vChoice("runes", 48)
	src := "(" + strings.Repeat("力", k) + []string{"", "+1", " +\n1"}[vChoice("tail", 3)]
	vm := NewVM()
	vm.Config.ParseErrorLanguage = vChoice("lang", 3)
	err := vm.Parse(src)
	vReach("parsed")
	if err != nil {
		_ = err.Error()
		_ = vm.GetErrorText()
	}
	_, e2 := vm.RunExpr(src, false)
	if e2 != nil {
		_ = e2.Error()
	}
}

//vh:prop=C01 tiers=quick,thorough sigkeys=cfg overrides=formatFriendlyError summaries=Roll:roll-log unwind=400 unwind_ok=1 maxsteps=8000000 budget_s=1800 quick:P.n=2 thorough:P.n=3 bounds="every source text of exactly n bytes over ALL byte values 0x00-0xFF (n=2 quick, n=3 thorough; invalid UTF-8 included; shorter texts arise as prefixes followed by a rejected or ignored byte), parsed, run and observed (value, repr, process text, bytecode listing, matched / rest text, error text) and run a second time on the same VM, under 4 configurations (default; every dice family on with min mode; DisableStmts+DisableNDice+DisableBitwiseOp; IgnoreDiv0 with a default-sides expression and budgets 200 / 100): no panic site is feasible; dice are fixed low faces; syntax-error formatting is stubbed here (C19 covers it)"
func VH_C01_src() {
	src := string(vSymBytes("b", vParam("n", 2)))
	vm := NewVM()
	switch vChoice("cfg", 4) {
	case 1:
		vm = vNewVM()
		vm.Config.DiceMinMode = true
	case 2:
		vm.Config.DisableStmts, vm.Config.DisableNDice, vm.Config.DisableBitwiseOp = true, true, true
	case 3:
		vm = vNewVM()
		vm.Config.IgnoreDiv0 = true
		vm.Config.DefaultDiceSideExpr = "d4 + 2"
		vm.Config.OpCountLimit = 200
		vm.Config.ParseExprLimit = 100
	}
	err := vm.Run(src)
	vObserveAll(vm, err)
	_ = vm.GetAsmText()
	err = vm.Run(src)
	vObserveAll(vm, err)
	vReach("ran-twice")
}
