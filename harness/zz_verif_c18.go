//go:build verif

package dicescript

func init() {
	vHarnesses["VH_C18_assign"] = VH_C18_assign
	vHarnesses["VH_C18_modify"] = VH_C18_modify
	vHarnesses["VH_C18_long"] = VH_C18_long
	vHarnesses["VH_C18_modify_float"] = VH_C18_modify_float
	vHarnesses["VH_C18_modify_expr"] = VH_C18_modify_expr
}

type vStCall struct {
	typ, name, op, detail string
	val, extra            *VMValue
}

type vStForm struct {
	pre, mid, post string // text around the value digits (and the extra digits for x1)
	typ, name, op  string
	hasExtra       bool
	computed       bool // '&name = expr': the value reported is the computed value of the written text
}

// spellings of one assignment: name, separator, value digits
var vC18AssignForms = []vStForm{
	{pre: "力量", typ: "set", name: "力量"},
	{pre: "力量:", typ: "set", name: "力量"},
	{pre: "力量=", typ: "set", name: "力量"},
	{pre: "力量 = ", typ: "set", name: "力量"},
	{pre: "str", typ: "set", name: "str"},
	{pre: "'力量 2':", typ: "set", name: "力量 2"},
	{pre: "测试:力量", typ: "set", name: "测试:力量"},
	{pre: "射击:弓箭:", typ: "set", name: "射击:弓箭"},
	{pre: "属性*:", typ: "set.x0", name: "属性"},
	{pre: "属性*", mid: ":", typ: "set.x1", name: "属性", hasExtra: true},
	{pre: "属性*", mid: "=", typ: "set.x1", name: "属性", hasExtra: true},
	{pre: "属性 * ", mid: " = ", typ: "set.x1", name: "属性", hasExtra: true},
	{pre: "属性*=", typ: "set.x0", name: "属性"},
	{pre: "属性 * : ", typ: "set.x0", name: "属性"},
	{pre: "知识(", post: ")", typ: "set", name: "知识"},
	{pre: "&手枪=", typ: "set", name: "手枪", computed: true},
	{pre: "&射击:弓箭 = ", typ: "set", name: "射击:弓箭", computed: true},
}

var vC18ModifyForms = []vStForm{
	{pre: "力量+", typ: "mod", name: "力量", op: "+"},
	{pre: "力量+=", typ: "mod", name: "力量", op: "+"},
	{pre: "力量-", typ: "mod", name: "力量", op: "-"},
	{pre: "力量-=", typ: "mod", name: "力量", op: "-="},
	{pre: "力量 += ", typ: "mod", name: "力量", op: "+"},
	{pre: "射击:弓箭+", typ: "mod", name: "射击:弓箭", op: "+"},
	{pre: "'力量 2'+=", typ: "mod", name: "力量 2", op: "+"},
}

var vC18Seps = []string{"", " ", ",", ", "}

// vDigits returns k symbolic decimal digits (first one non-zero) and their value.
func vDigits(label string, k int) ([]byte, int64) {
	b := vSymBytes(label, k)
	v := int64(0)
	for i := range b {
		vAssume(b[i] >= '0')
		vAssume(b[i] <= '9')
		if i == 0 {
			vAssume(b[i] != '0')
		}
		v = v*10 + int64(b[i]-'0')
	}
	return b, v
}

// amounts written as floats or parenthesised float expressions (concrete)
var vC18FloatAmounts = []struct {
	src string
	val float64
}{{"1.5", 1.5}, {"(1.25+1)", 2.25}, {"0.5", 0.5}}

//vh:prop=C18 tiers=quick,thorough sigkeys=form,amount overrides=formatFriendlyError budget_s=600 bounds="one attribute modification in each of the 7 spellings with a float amount (1.5, (1.25+1), 0.5): value sign-normalised for subtraction, operator verbatim"
func VH_C18_modify_float() {
	f := vC18ModifyForms[vChoice("form", len(vC18ModifyForms))]
	am := vC18FloatAmounts[vChoice("amount", len(vC18FloatAmounts))]
	vm := vNewVM()
	var calls []vStCall
	vm.Config.CallbackSt = func(typ string, name string, val *VMValue, extra *VMValue, op string, detail string) {
		calls = append(calls, vStCall{typ, name, op, detail, val, extra})
	}
	err := vm.Run("^st" + f.pre + am.src)
	vReach("ran")
	vAssert(err == nil, "edit-is-accepted")
	if err != nil {
		return
	}
	vAssert(len(calls) == 1, "callback-fires-once")
	if len(calls) != 1 {
		return
	}
	c := calls[0]
	vAssert(c.typ == "mod" && c.name == f.name && c.op == f.op, "kind-name-operator-verbatim")
	fv, ok := c.val.ReadFloat()
	vAssert(ok, "value-is-a-float")
	vAssert(fv == am.val, "value-is-the-written-amount (sign-normalised)")
}

// amounts that are expressions over the variable xx (a 64-bit symbol): the
// callback receives the amount's value whatever its sign
var vC18ExprAmounts = []struct {
	src string
	val func(x int64) int64
}{
	{"xx", func(x int64) int64 { return x }},
	{"(xx)", func(x int64) int64 { return x }},
	{"(1-xx)", func(x int64) int64 { return 1 - x }},
	{"(xx-3)", func(x int64) int64 { return x - 3 }},
	{"(0-xx)", func(x int64) int64 { return 0 - x }},
}

//vh:prop=C18 tiers=quick,thorough sigkeys=form,amount,second overrides=formatFriendlyError budget_s=600 bounds="one or two attribute modifications in each of the 7 spellings whose amount is a variable or a parenthesised expression over a variable holding a 64-bit solver symbol (positive, zero or negative): one callback per edit, name and operator verbatim, value equal to the amount's value for every sign (sign-normalised for the '-' spelling)"
func VH_C18_modify_expr() {
	f := vC18ModifyForms[vChoice("form", len(vC18ModifyForms))]
	am := vC18ExprAmounts[vChoice("amount", len(vC18ExprAmounts))]
	x := vInt64("x")
	vm := vNewVM()
	vm.Attrs.Store("xx", NewIntVal(IntType(x)))
	var calls []vStCall
	vm.Config.CallbackSt = func(typ string, name string, val *VMValue, extra *VMValue, op string, detail string) {
		calls = append(calls, vStCall{typ, name, op, detail, val, extra})
	}
	src := "^st" + f.pre + am.src
	n := 1
	if vChoice("second", 2) == 1 {
		// a second edit in the '-' spelling after a separator
		src += ", 敏捷-" + am.src
		n = 2
	}
	err := vm.Run(src)
	vReach("ran")
	vAssert(err == nil, "edit-is-accepted")
	if err != nil {
		return
	}
	vAssert(vm.RestInput == "", "edits-consumed-entirely")
	vAssert(len(calls) == n, "callback-fires-once-per-edit")
	if len(calls) != n {
		return
	}
	c := calls[0]
	vAssert(c.typ == "mod" && c.name == f.name && c.op == f.op, "kind-name-operator-verbatim")
	iv, ok := c.val.ReadInt()
	vAssert(ok, "value-is-an-integer")
	vAssert(int64(iv) == am.val(x), "value-is-the-amount's-value-for-every-sign")
	if n == 2 {
		c := calls[1]
		vAssert(c.typ == "mod" && c.name == "敏捷" && c.op == "-", "kind-name-operator-verbatim")
		iv, ok := c.val.ReadInt()
		vAssert(ok, "value-is-an-integer")
		vAssert(int64(iv) == am.val(x), "value-is-the-amount's-value-for-every-sign")
	}
}

func vC18Run(forms []vStForm, maxEdits int) { vC18RunN(forms, 1, maxEdits, false) }

// vC18RunN: lists of minEdits..maxEdits edits.  With rotate, only the first
// spelling and the first separator are choices and the following edits take
// the next spelling / separator in turn (long lists without the full product).
func vC18RunN(forms []vStForm, minEdits, maxEdits int, rotate bool) {
	k := minEdits + vChoice("edits", maxEdits-minEdits+1)
	f0, s0 := 0, 0
	if rotate {
		f0 = vChoice("form", len(forms))
		s0 = vChoice("sep", len(vC18Seps))
	}
	var src []byte
	src = append(src, "^st"...)
	type want struct {
		f          vStForm
		val, extra int64
		text       string
	}
	var wants []want
	lastSepComma := false
	for i := 0; i < k; i++ {
		var f vStForm
		nd := 1
		if rotate {
			f = forms[(f0+i)%len(forms)]
		} else {
			f = forms[vChoice("form", len(forms))]
			if i == 0 || maxEdits <= 2 {
				nd = 1 + vChoice("digits", 2)
			}
		}
		src = append(src, f.pre...)
		w := want{f: f}
		if f.hasExtra {
			eb, ev := vDigits("x", 1)
			src = append(src, eb...)
			src = append(src, f.mid...)
			w.extra = ev
		}
		db, dv := vDigits("v", nd)
		src = append(src, db...)
		src = append(src, f.post...)
		// "(v)&name" would be a bitwise AND inside the parenthesised value:
		// a computed edit after a parenthesised one needs its comma
		if f.computed && i > 0 && wants[i-1].f.post == ")" {
			vAssume(lastSepComma)
		}
		w.val = dv
		w.text = string(db)
		wants = append(wants, w)
		if i+1 < k {
			sep := ""
			if rotate {
				sep = vC18Seps[(s0+i)%len(vC18Seps)]
			} else {
				sep = vC18Seps[vChoice("sep", len(vC18Seps))]
			}
			src = append(src, sep...)
			lastSepComma = len(sep) > 0 && sep[0] == ','
		}
	}
	vm := vNewVM()
	var calls []vStCall
	vm.Config.CallbackSt = func(typ string, name string, val *VMValue, extra *VMValue, op string, detail string) {
		calls = append(calls, vStCall{typ, name, op, detail, val, extra})
	}
	err := vm.Run(string(src))
	vReach("ran")
	vAssert(err == nil, "edit-list-is-accepted")
	if err != nil {
		return
	}
	vAssert(vm.RestInput == "", "edit-list-is-consumed-entirely")
	vAssert(len(calls) == len(wants), "callback-fires-once-per-edit")
	if len(calls) != len(wants) {
		return
	}
	for i, w := range wants {
		c := calls[i]
		vAssert(c.typ == w.f.typ, "edit-kind-in-source-order")
		vAssert(c.name == w.f.name, "name-verbatim")
		vAssert(c.op == w.f.op, "operator-verbatim")
		if w.f.computed {
			cd, ok := c.val.ReadComputed()
			vAssert(ok, "value-is-a-computed-value")
			if ok {
				vAssert(cd.Expr == w.text, "computed-value-has-the-written-expression")
			}
			continue
		}
		iv, ok := c.val.ReadInt()
		vAssert(ok, "value-is-an-integer")
		vAssert(int64(iv) == w.val, "value-is-the-written-value (sign-normalised)")
		if w.f.hasExtra {
			vAssert(c.extra != nil, "multiplier-reported")
			if c.extra != nil {
				ev, ok := c.extra.ReadInt()
				vAssert(ok && int64(ev) == w.extra, "multiplier-is-the-written-value")
			}
		}
	}
}

//vh:prop=C18 tiers=quick,thorough overrides=formatFriendlyError unwind=400 unwind_ok=1 budget_s=2400 quick:P.maxEdits=2 thorough:P.maxEdits=3 bounds="lists of 1..maxEdits (2 quick, 3 thorough) attribute assignments, each in one of 17 spellings (computed '&name=expr' with plain and namespaced name, bare, ':' '=' with and without spaces, ASCII name, quoted name with space and digit, namespaced names, '*' and '*k' multipliers, parenthesised value) joined by one of 4 separators, values 1-2 symbolic decimal digits (with three edits only the first value may have two): the callback log equals the written list"
func VH_C18_assign() {
	vC18Run(vC18AssignForms, vParam("maxEdits", 2))
}

//vh:prop=C18 tiers=quick,thorough overrides=formatFriendlyError unwind=400 unwind_ok=1 budget_s=2400 quick:P.maxEdits=2 thorough:P.maxEdits=3 bounds="lists of 1..maxEdits attribute modifications in 7 spellings (+ += - -= with and without spaces, namespaced and quoted names), 4 separators, values 1-2 symbolic digits (with three edits only the first value may have two): one callback per edit, in order, name / operator verbatim, subtraction sign-normalised"
func VH_C18_modify() {
	vC18Run(vC18ModifyForms, vParam("maxEdits", 2))
}

//vh:prop=C18 tiers=quick,thorough overrides=formatFriendlyError unwind=400 unwind_ok=1 budget_s=2400 quick:P.maxEdits=4 thorough:P.maxEdits=6 bounds="long lists: 3..maxEdits (4 quick, 6 thorough) edits, assignments and modifications; the first spelling and the first separator are choices (17 / 7 spellings, 4 separators), later edits take the following spellings and separators in turn; values one symbolic digit: the callback log equals the written list"
func VH_C18_long() {
	if vChoice("family", 2) == 0 {
		vC18RunN(vC18AssignForms, 3, vParam("maxEdits", 4), true)
	} else {
		vC18RunN(vC18ModifyForms, 3, vParam("maxEdits", 4), true)
	}
}

// values in parentheses that use operators the st value rule switches off
// outside parentheses (the parser saves and restores its flags around them)
var vC18ParenValues = []struct {
	src string
	val int64
}{{"(4|1)", 5}, {"(6&3)", 2}, {"(1+2)", 3}, {"((8|1)&12)", 8}, {"(2d1)", 2}}

var vC18ParenFirst = []struct {
	src, typ, name string
}{{"力量60", "set", "力量"}, {"&手枪=1d1", "set", "手枪"}, {"属性*2:5", "set.x1", "属性"}, {"体质(3&1)", "set", "体质"}}

func init() {
	vHarnesses["VH_C18_paren"] = VH_C18_paren
}

//vh:prop=C18 tiers=quick,thorough sigkeys=first,sep,value,third overrides=formatFriendlyError budget_s=600 bounds="lists of two or three edits: one of 4 first assignments (plain, computed, multiplier, parenthesised bitwise), one of 4 separators, then an assignment whose value is one of 5 parenthesised expressions with bitwise operators / dice, optionally a third plain edit: one callback per edit in order, the parenthesised value evaluated as written, the list consumed entirely"
func VH_C18_paren() {
	f := vC18ParenFirst[vChoice("first", len(vC18ParenFirst))]
	sep := vC18Seps[vChoice("sep", len(vC18Seps))]
	pv := vC18ParenValues[vChoice("value", len(vC18ParenValues))]
	third := vChoice("third", 2) == 1
	src := "^st" + f.src + sep + "智力" + pv.src
	n := 2
	if third {
		src += " 意志70"
		n = 3
	}
	vm := vNewVM()
	var calls []vStCall
	vm.Config.CallbackSt = func(typ string, name string, val *VMValue, extra *VMValue, op string, detail string) {
		calls = append(calls, vStCall{typ, name, op, detail, val, extra})
	}
	err := vm.Run(src)
	vReach("ran")
	vAssert(err == nil, "list-is-accepted")
	if err != nil {
		return
	}
	vAssert(vm.RestInput == "", "list-consumed-entirely")
	vAssert(len(calls) == n, "one-callback-per-edit")
	if len(calls) != n {
		return
	}
	vAssert(calls[0].typ == f.typ && calls[0].name == f.name, "first-edit-verbatim")
	vAssert(calls[1].typ == "set" && calls[1].name == "智力", "second-edit-verbatim")
	iv, ok := calls[1].val.ReadInt()
	vAssert(ok && int64(iv) == pv.val, "parenthesised-value-evaluated-as-written")
	if third {
		vAssert(calls[2].typ == "set" && calls[2].name == "意志", "third-edit-verbatim")
	}
}

// ASCII names that begin with a dice letter, directly after a value: 'N' + 'd..' must not read as dice
var vC18DiceLetterLists = []struct {
	src   string
	names []string
	vals  []int64
}{
	{"^st力量60dex70", []string{"力量", "dex"}, []int64{60, 70}},
	{"^st力量60 dex70", []string{"力量", "dex"}, []int64{60, 70}},
	{"^st力量60Dodge:7 str5", []string{"力量", "Dodge", "str"}, []int64{60, 7, 5}},
	{"^ststr5dex6con7", []string{"str", "dex", "con"}, []int64{5, 6, 7}},
	{"^st力量:60dex=70,Dodge8", []string{"力量", "dex", "Dodge"}, []int64{60, 70, 8}},
	{"^stdex70力量60", []string{"dex", "力量"}, []int64{70, 60}},
	{"^st力量6fate7", []string{"力量", "fate"}, []int64{6, 7}},
	{"^st力量6pow7 bonus8", []string{"力量", "pow", "bonus"}, []int64{6, 7, 8}},
}

func init() {
	vHarnesses["VH_C18_letters"] = VH_C18_letters
}

//vh:prop=C18 tiers=quick,thorough sigkeys=list overrides=formatFriendlyError budget_s=300 bounds="8 assignment lists in which an ASCII name beginning with a dice letter (d D f p b c) follows a numeric value with or without a separator: one callback per edit, in order, names and values as written, the list consumed entirely"
func VH_C18_letters() {
	l := vC18DiceLetterLists[vChoice("list", len(vC18DiceLetterLists))]
	vm := vNewVM()
	var calls []vStCall
	vm.Config.CallbackSt = func(typ string, name string, val *VMValue, extra *VMValue, op string, detail string) {
		calls = append(calls, vStCall{typ, name, op, detail, val, extra})
	}
	err := vm.Run(l.src)
	vReach("ran")
	vAssert(err == nil, "list-is-accepted")
	if err != nil {
		return
	}
	vAssert(vm.RestInput == "", "list-consumed-entirely")
	vAssert(len(calls) == len(l.names), "one-callback-per-edit")
	for i := range calls {
		if i < len(l.names) {
			iv, ok := calls[i].val.ReadInt()
			vAssert(calls[i].typ == "set" && calls[i].name == l.names[i] && ok && int64(iv) == l.vals[i], "edit-reported-as-written")
		}
	}
}
