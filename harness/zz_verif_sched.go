//go:build verif

package dicescript

// Native replay scheduler: the same cooperative, pre-emption-bounded
// scheduler as gosymx/interp/threads.go, driven by the "sched" choices of the
// solver model.  valuemap.go is overlaid (by vcheck, for C12 replays) with a
// copy whose synchronisation operations go through the vSync* wrappers below,
// so that a schedule found by the engine is re-enacted on the real code.

import (
	"sync"
	"sync/atomic"
	"unsafe"
)

type vThread struct {
	id          int
	done        bool
	pendingLock *sync.Mutex
	wake        chan struct{}
}

var vS struct {
	active     bool
	threads    []*vThread
	cur        int
	preempt    int
	maxPreempt int
	clock      int
	held       map[*sync.Mutex]bool
	mainWake   chan struct{}
	panicVal   interface{}
	hasPanic   bool
}

func vClock() int { return vS.clock }

func vEnabled() []*vThread {
	var out []*vThread
	for _, t := range vS.threads {
		if t.done || (t.pendingLock != nil && vS.held[t.pendingLock]) {
			continue
		}
		out = append(out, t)
	}
	return out
}

func vChooseThread(cur *vThread) *vThread {
	en := vEnabled()
	if len(en) == 0 {
		return nil
	}
	curEnabled := false
	for _, t := range en {
		if t == cur {
			curEnabled = true
		}
	}
	if curEnabled && vS.preempt >= vS.maxPreempt {
		return cur
	}
	if len(en) == 1 {
		return en[0]
	}
	k := int(vNext())
	if k < 0 || k >= len(en) {
		k = 0
	}
	if curEnabled && en[k] != cur {
		vS.preempt++
	}
	return en[k]
}

func vSchedFail(r interface{}) {
	if !vS.hasPanic {
		vS.panicVal, vS.hasPanic = r, true
	}
	vS.mainWake <- struct{}{}
}

func vYield(lock *sync.Mutex) {
	if !vS.active {
		return
	}
	vS.clock++
	t := vS.threads[vS.cur]
	t.pendingLock = lock
	next := vChooseThread(t)
	if next == nil {
		vSchedFail(vAssertFailure{"deadlock"})
		select {} // parked for good; the test process ends with the main goroutine
	}
	if next != t {
		vS.cur = next.id
		next.wake <- struct{}{}
		<-t.wake
	}
	t.pendingLock = nil
}

func vThreads2(maxPreempt int, f1, f2 func()) {
	vS.active = true
	vS.threads = nil
	vS.cur, vS.preempt, vS.maxPreempt, vS.clock = -1, 0, maxPreempt, 0
	vS.held = map[*sync.Mutex]bool{}
	vS.mainWake = make(chan struct{})
	vS.hasPanic, vS.panicVal = false, nil
	for k, f := range []func(){f1, f2} {
		t := &vThread{id: k, wake: make(chan struct{})}
		vS.threads = append(vS.threads, t)
		f := f
		go func() {
			<-t.wake
			defer func() {
				if r := recover(); r != nil {
					t.done = true
					vSchedFail(r)
					return
				}
				t.done = true
				all := true
				for _, u := range vS.threads {
					if !u.done {
						all = false
					}
				}
				if all {
					vS.mainWake <- struct{}{}
					return
				}
				next := vChooseThread(nil)
				if next == nil {
					vSchedFail(vAssertFailure{"deadlock"})
					return
				}
				vS.cur = next.id
				next.wake <- struct{}{}
			}()
			f()
		}()
	}
	first := vChooseThread(nil)
	vS.cur = first.id
	first.wake <- struct{}{}
	<-vS.mainWake
	vS.active = false
	if vS.hasPanic {
		panic(vS.panicVal)
	}
}

func vSyncLock(m *sync.Mutex) {
	vYield(m)
	m.Lock()
	if vS.active {
		vS.held[m] = true
	}
}

func vSyncUnlock(m *sync.Mutex) {
	vYield(nil)
	if vS.active {
		delete(vS.held, m)
	}
	m.Unlock()
}

func vSyncLoadPointer(p *unsafe.Pointer) unsafe.Pointer {
	vYield(nil)
	return atomic.LoadPointer(p)
}

func vSyncStorePointer(p *unsafe.Pointer, v unsafe.Pointer) {
	vYield(nil)
	atomic.StorePointer(p, v)
}

func vSyncCASPointer(p *unsafe.Pointer, o, n unsafe.Pointer) bool {
	vYield(nil)
	return atomic.CompareAndSwapPointer(p, o, n)
}

func vSyncValueLoad(v *atomic.Value) interface{} {
	vYield(nil)
	return v.Load()
}

func vSyncValueStore(v *atomic.Value, x interface{}) {
	vYield(nil)
	v.Store(x)
}
